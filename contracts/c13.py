"""C13 — WAMP transports attach a session only after valid negotiation and fail closed.

RawSocket (Twisted and asyncio): the opening-handshake decision, the hand-over to the length-prefixed framing, the
asyncio frame decoder, the exception-to-abort ladders and the transport-gone notification are under contract here;
the ITransport.send() implementations are in contracts/transports.py (shared with C10).
"""
import z3

from pyvc.values import *  # noqa
from pyvc.engine import HObj
from . import transports as T

TXR = "autobahn.twisted.rawsocket"
AIR = "autobahn.asyncio.rawsocket"
WWS = "autobahn.wamp.websocket"

ASSUMPTIONS = list(T.ASSUMPTIONS) + [
    "Twisted's Int32StringReceiver.dataReceived (4-octet big-endian length framing, lengthLimitExceeded hook) is "
    "library code outside the repository: modelled as consuming the octets handed to it (ghost.framed)",
    "transport.write / abortConnection / loseConnection / close / abort are total and only recorded (ghost state)",
    "the session factory, ISession.onOpen / onMessage / onClose and ISerializer.unserialize are arbitrary: they "
    "return or raise any Exception",
    "copy.copy of a serializer yields a new serializer object with the same ids",
    "math.log(x, 2) / math.ceil are exact (ceil(log2 x) for 1 <= x <= 2**64; true for the powers of two 2**9..2**24 and "
    "all sizes accepted by setProtocolOptions in CPython's float arithmetic)",
    "termination (the recursive dataReceived call on the remaining octets) is not verified",
]


# ------------------------------------------------------------------------------------------ assumed primitives
def _g(state):
    return state.heap[state.ghost.oid]


def ext_write(ex, state, args, kwargs, sv):
    g = _g(state)
    g.fields["written"] = VBytes(z3.Concat(g.fields["written"].t, args[0].t))
    return VNone


def _bump(field):
    def f(ex, state, args, kwargs, sv):
        g = _g(state)
        g.fields[field] = VInt(simp(g.fields[field].t + 1))
        return VNone
    return f


def ext_framing(ex, state, args, kwargs, sv):
    """Int32StringReceiver.dataReceived(self, data): the octets enter the length-prefixed framing layer"""
    g = _g(state)
    g.fields["framed"] = VBytes(z3.Concat(g.fields["framed"].t, args[1].t))
    return VNone


def _may_raise(ex, state, tag):
    b = z3.Bool(fresh_name(tag + "_raises"))
    rs = state.copy()
    rs.pending = []
    rs.assume(b)
    state.pending.append((rs, ex.mk_exc(rs, "Exception", exact=False)))
    state.assume(z3.Not(b))


def ext_session_factory(ex, state, args, kwargs, sv):
    _may_raise(ex, state, "factory")
    return ex.reg.fresh_obj(ex, state, "SessObj", "new_session")


def ext_on_open(ex, state, args, kwargs, sv):
    g = _g(state)
    g.fields["n_attach"] = VInt(simp(g.fields["n_attach"].t + 1))
    _may_raise(ex, state, "onOpen")
    return VOpaque(fresh_name("onopen_result"))


def ext_on_close(ex, state, args, kwargs, sv):
    g = _g(state)
    g.fields["n_onclose"] = VInt(simp(g.fields["n_onclose"].t + 1))
    _may_raise(ex, state, "onClose")
    return VNone


RAISE_KINDS = ["ProtocolError", "InvalidUriError", "PayloadExceededError", "SerializationError", "CancelledError",
               "Exception"]       # "Exception": any other exception class


def _raise_kinds(ex, state, tag):
    """the callee raises one of the listed kinds (recorded in ghost.raised as 1 + index) or returns"""
    g = _g(state)
    for i, name in enumerate(RAISE_KINDS):
        b = z3.Bool(fresh_name("%s_raises_%s" % (tag, name)))
        rs = state.copy()
        rs.pending = []
        rs.assume(b)
        rs.heap[rs.ghost.oid].fields["raised"] = VInt(i + 1)
        state.pending.append((rs, ex.mk_exc(rs, name, exact=(name != "Exception"))))
        state.assume(z3.Not(b))


def ext_unserialize(ex, state, args, kwargs, sv):
    _raise_kinds(ex, state, "unserialize")
    o = HObj("list")
    o.items, o.elem = None, "int"
    o.seq = z3.Const(fresh_name("messages"), z3.SeqSort(z3.IntSort()))
    r = state.alloc(o)
    _g(state).fields["unser"] = r
    _g(state).fields["decoded"] = VBool(True)
    return r


def ext_on_message(ex, state, args, kwargs, sv):
    g = _g(state)
    g.fields["n_onmessage"] = VInt(simp(g.fields["n_onmessage"].t + 1))
    g.fields["delivered"] = VBytes(z3.Concat(g.fields["delivered"].t, z3.Unit(ex.num(args[0]))))
    _raise_kinds(ex, state, "onMessage")
    return VNone


def ext_copy(ex, state, args, kwargs, sv):
    """copy.copy(serializer record): a new record with the same field values"""
    src = args[0]
    if not isinstance(src, VSym):
        raise Unsupported("copy.copy of %r" % (src,))
    a = z3.Int(fresh_name("copy_of_ser"))
    alloc = state.sheap.get(("$alloc", ""))
    if alloc is None:
        alloc = z3.Array("H0_alloc", z3.IntSort(), z3.BoolSort())
    state.assume(z3.Not(z3.Select(alloc, a)))
    state.sheap[("$alloc", "")] = z3.Store(alloc, a, z3.BoolVal(True))
    sh = ex.reg.shapes[src.shape]
    for f, typ in sh.fields.items():
        arr = ex.reg._sym_arr(state, src.shape, f, typ)
        state.sheap[ex.reg.heap_key(src.shape, f)] = z3.Store(arr, a, z3.Select(arr, src.t))
    return VSym(src.shape, a)


_clog2 = None


def clog2_term(n):
    """ceil(log2 n) for 1 <= n <= 2**64 as an exact case table"""
    t = z3.IntVal(64)
    for e in range(63, -1, -1):
        t = z3.If(n <= (1 << e), z3.IntVal(e), t)
    return t


def ext_math_log(ex, state, args, kwargs, sv):
    if len(args) != 2 or not (isinstance(args[1], VInt) and z3.is_int_value(simp(args[1].t)) and simp(args[1].t).as_long() == 2):
        raise Unsupported("math.log with a base other than 2")
    n = ex.num(args[0])
    ex.raise_if(state, n <= 0, "ValueError")
    r = z3.Real(fresh_name("log2"))
    c = clog2_term(n)
    state.assume(z3.And(z3.ToReal(c) - 1 < r, r <= z3.ToReal(c)))
    return VReal(r)


def ext_math_ceil(ex, state, args, kwargs, sv):
    r = args[0]
    if isinstance(r, VInt):
        return r
    c = z3.Int(fresh_name("ceil"))
    state.assume(z3.And(z3.ToReal(c) - 1 < r.t, r.t <= z3.ToReal(c)))
    return VInt(c)


def common_shapes(reg):
    reg.shape("Ghost", ghost=True, fields={
        "written": "bytes", "n_drop": "nat", "n_close": "nat", "framed": "bytes", "n_attach": "nat", "n_onclose": "nat",
        "n_onmessage": "nat", "n_written": "nat", "last_written": "bytes", "raised": "int", "unser": "any", "decoded": "bool",
        "delivered": "bytes"})
    reg.external("session.onMessage", ext_on_message)
    reg.external("serializer.unserialize", ext_unserialize)
    reg.external("tw.write", ext_write)
    reg.external("tw.drop", _bump("n_drop"))
    reg.external("tw.close", _bump("n_close"))
    reg.external("session_factory", ext_session_factory)
    reg.external("session.onOpen", ext_on_open)
    reg.external("session.onClose", ext_on_close)
    reg.external("copy.copy", ext_copy)
    reg.external("math.log", ext_math_log)
    reg.external("math.ceil", ext_math_ceil)
    from .wamp_common import sym_allocated
    reg.native_spec("allocated", sym_allocated)
    reg.native_spec("clog2", lambda ex, state, n: VInt(clog2_term(ex.num(n))))
    reg.shape("SerRec", fields={"RAWSOCKET_SERIALIZER_ID": "int", "BINARY": "bool"},
              methods={"unserialize": "serializer.unserialize"})
    reg.shape("SessObj", fields={}, methods={"onOpen": "session.onOpen", "onClose": "session.onClose",
                                             "onMessage": "session.onMessage"})
    reg.shape("TDetails", fields={"is_secure": "bool", "is_server": "any", "channel_id": "any", "peer": "any",
                                    "channel_framing": "any"})


def build(reg):
    common_shapes(reg)
    reg.lemma_fn("seq_snoc", lem_seq_snoc)
    reg.mark_inline(TXR + ":WampRawSocketProtocol.isOpen", AIR + ":WampRawSocketMixinGeneral.isOpen",
                    WWS + ":WampWebSocketProtocol.isOpen")
    common = dict(props=["C13"], spec_module="specs.rawsocket")
    # ============================================================ Twisted RawSocket
    reg.shape("TwTransport", fields={}, methods={"write": "tw.write", "abortConnection": "tw.drop",
                                                 "loseConnection": "tw.drop"})
    reg.shape("TwTransportNoAbort", fields={}, methods={"write": "tw.write", "loseConnection": "tw.drop"})
    reg.shape("TwFactory", fields={"_serializers": "dict:int->sym:SerRec", "_serializer": "sym:SerRec",
                                   "_factory": "cb:session_factory"})
    TWF = {"log": "logger", "_handshake_complete": "bool", "_handshake_bytes": "bytes", "_max_len_send": "opt:int",
           "_serializer": "opt:sym:SerRec", "_session": "opt:obj:SessObj", "factory": "obj:TwFactory",
           "transport": "opt:obj:TwTransport|obj:TwTransportNoAbort", "_max_message_size": "int", "MAX_LENGTH": "int",
           "_transport_details": "obj:TDetails"}
    reg.shape("TwServer", cls=TXR + ":WampRawSocketServerProtocol", fields=TWF)
    reg.shape("TwClient", cls=TXR + ":WampRawSocketClientProtocol", fields=TWF)
    reg.external("WampRawSocketProtocol.dataReceived", ext_framing)
    reg.contract("autobahn.twisted.util:transport_channel_id", params={}, returns="any", raises={"Exception+": "True"},
                 verify=False, **common)
    for shape, cls in (("TwServer", "WampRawSocketServerProtocol"), ("TwClient", "WampRawSocketClientProtocol")):
        # ---- abort(): tears the transport down whether or not a session is attached; TransportLost only without transport
        reg.contract(TXR + ":WampRawSocketProtocol.abort", name=TXR + ":WampRawSocketProtocol.abort<%s>" % shape,
                     params={"self": "obj:" + shape}, modifies=["ghost.n_drop"],
                     ensures=["ghost.n_drop == old(ghost.n_drop) + 1"],
                     raises={"TransportLost": "self.transport is None"},
                     raises_ensures={"TransportLost": ["ghost.n_drop == old(ghost.n_drop)"]}, **common)
        # ---- _on_handshake_complete: the one place a session is created and attached
        reg.contract(TXR + ":WampRawSocketProtocol._on_handshake_complete",
                     name=TXR + ":WampRawSocketProtocol._on_handshake_complete<%s>" % shape,
                     params={"self": "obj:" + shape}, requires=["self.transport is not None"],
                     modifies=["self._session", "self._transport_details.channel_id", "ghost.n_attach", "ghost.n_drop"],
                     ensures=["ghost.n_attach <= old(ghost.n_attach) + 1",
                              # a session whose construction / onOpen failed: the transport is dropped
                              "ghost.n_attach == old(ghost.n_attach) + 1 or ghost.n_drop == old(ghost.n_drop) + 1",
                              "ghost.n_drop <= old(ghost.n_drop) + 1"], **common)
    HS_REQ = ["len(self._handshake_bytes) <= 4", "implies(self._handshake_complete, len(self._handshake_bytes) == 4)",
              "self.transport is not None", "512 <= self._max_message_size <= 2**24"]
    S = "(old(self._handshake_bytes) + data)"
    FRAME_KEEP = ("self._handshake_complete == old(self._handshake_complete) and self._serializer is old(self._serializer) "
                  "and self._max_len_send == old(self._max_len_send) and self.MAX_LENGTH == old(self.MAX_LENGTH) and "
                  "implies(self._serializer is not None, self._serializer.RAWSOCKET_SERIALIZER_ID == "
                  "old(self._serializer.RAWSOCKET_SERIALIZER_ID))")
    QUIET = ("ghost.written == old(ghost.written) and ghost.n_attach == old(ghost.n_attach)")
    MODS = ["self._handshake_bytes", "self._handshake_complete", "self._max_len_send", "self._serializer",
            "self.MAX_LENGTH", "self._session", "self._transport_details.channel_id", "ghost.written", "ghost.n_drop",
            "ghost.framed", "ghost.n_attach", "SerRec.*"]
    SRV_VALID = "%s[0] == 127 and hs_ser(%s) in self.factory._serializers" % (S, S)
    E = "clog2(self._max_message_size)"
    reg.contract(
        TXR + ":WampRawSocketServerProtocol.dataReceived", params={"self": "obj:TwServer", "data": "bytes"},
        requires=HS_REQ + ["forall(k, 0, 16, implies(k in self.factory._serializers, "
                           "self.factory._serializers[k].RAWSOCKET_SERIALIZER_ID == k and "
                           "allocated(self.factory._serializers[k])))"],
        modifies=MODS,
        ensures=[
            # after the handshake every octet goes to the framing layer, nothing else happens here
            "implies(old(self._handshake_complete), ghost.framed == old(ghost.framed) + data and %s and %s and "
            "self._handshake_bytes == old(self._handshake_bytes) and ghost.n_drop == old(ghost.n_drop))" % (QUIET, FRAME_KEEP),
            # fewer than four octets so far: accumulate, decide nothing
            "implies(not old(self._handshake_complete) and len(%s) < 4, self._handshake_bytes == %s and %s and %s and "
            "ghost.n_drop == old(ghost.n_drop) and ghost.framed == old(ghost.framed))" % (S, S, QUIET, FRAME_KEEP),
            # the decision depends on the first four octets of the stream only, however they were segmented
            "implies(not old(self._handshake_complete) and len(%s) >= 4, self._handshake_bytes == %s[0:4])" % (S, S),
            # valid: reply 7f | (exp-9)<<4 | serializer | 00 00, attach exactly one session, same serializer, limits
        ] + ["implies(not old(self._handshake_complete) and len(%s) >= 4 and (%s), %s)" % (S, SRV_VALID, c) for c in (
            "self._handshake_complete",
            "ghost.written == old(ghost.written) + bytes([127, hs_octet2(%s - 9, hs_ser(%s)), 0, 0])" % (E, S),
            "self._max_len_send == hs_max_len(%s)" % S,
            "self._serializer.RAWSOCKET_SERIALIZER_ID == hs_ser(%s)" % S,
            "self.MAX_LENGTH == 2 ** %s" % E,
            "ghost.framed == old(ghost.framed) + %s[4:]" % S)] + [
            "implies(not old(self._handshake_complete) and len(%s) >= 4 and (%s), "
            "ghost.n_attach <= old(ghost.n_attach) + 1 and "
            "(ghost.n_attach == old(ghost.n_attach) + 1 or ghost.n_drop == old(ghost.n_drop) + 1))" % (S, SRV_VALID),
            # anything else: refused -- transport dropped, nothing written, no session, no octet reaches the framing
            "implies(not old(self._handshake_complete) and len(%s) >= 4 and not (%s), not self._handshake_complete and "
            "%s and ghost.n_drop == old(ghost.n_drop) + 1 and ghost.framed == old(ghost.framed) and "
            "self._session is old(self._session))" % (S, SRV_VALID, QUIET),
        ], **common)

    # ---- Twisted client: the reply must carry the magic octet and exactly the serializer that was requested
    CLI_VALID = "%s[0] == 127 and hs_ser(%s) == old(self._serializer.RAWSOCKET_SERIALIZER_ID)" % (S, S)
    NOT_DONE = "not old(self._handshake_complete) and len(%s) >= 4" % S
    reg.contract(
        TXR + ":WampRawSocketClientProtocol.dataReceived", params={"self": "obj:TwClient", "data": "bytes"},
        requires=HS_REQ + ["self._serializer is not None", "allocated(self._serializer)",
                           "1 <= self._serializer.RAWSOCKET_SERIALIZER_ID <= 15"],
        modifies=MODS,
        ensures=[
            "implies(old(self._handshake_complete), ghost.framed == old(ghost.framed) + data and %s and %s and "
            "self._handshake_bytes == old(self._handshake_bytes) and ghost.n_drop == old(ghost.n_drop))" % (QUIET, FRAME_KEEP),
            "implies(not old(self._handshake_complete) and len(%s) < 4, self._handshake_bytes == %s and %s and %s and "
            "ghost.n_drop == old(ghost.n_drop) and ghost.framed == old(ghost.framed))" % (S, S, QUIET, FRAME_KEEP),
            "implies(%s, self._handshake_bytes == %s[0:4])" % (NOT_DONE, S),
            # the client never writes during the handshake decision and keeps its serializer
            "ghost.written == old(ghost.written) and self._serializer is old(self._serializer)",
        ] + ["implies(%s and (%s), %s)" % (NOT_DONE, CLI_VALID, c) for c in (
            "self._handshake_complete", "self._max_len_send == hs_max_len(%s)" % S,
            "ghost.framed == old(ghost.framed) + %s[4:]" % S,
            "ghost.n_attach <= old(ghost.n_attach) + 1 and "
            "(ghost.n_attach == old(ghost.n_attach) + 1 or ghost.n_drop == old(ghost.n_drop) + 1)")] + [
            # wrong magic, another serializer, or the server's error reply (serializer code 0): refused
            "implies(%s and not (%s), not self._handshake_complete and ghost.n_attach == old(ghost.n_attach) and "
            "ghost.n_drop == old(ghost.n_drop) + 1 and ghost.framed == old(ghost.framed) and "
            "self._session is old(self._session))" % (NOT_DONE, CLI_VALID),
            "implies(%s and hs_ser(%s) == 0, not self._handshake_complete)" % (NOT_DONE, S),
        ], **common)
    # ---- connectionMade: initial state; the client announces 7f | (exp-9)<<4 | serializer | 00 00
    reg.contract("autobahn.twisted.util:create_transport_details", params={}, returns="obj:TDetails", verify=False, **common)
    reg.external("txaio.create_future", lambda ex, state, args, kwargs, sv: VOpaque(fresh_name("future")))
    INIT = ["not self._handshake_complete and len(self._handshake_bytes) == 0 and self._session is None and "
            "self._max_len_send is None"]
    TWF2 = dict(TWF, is_closed="any", peer="any", is_server="any")
    reg.shapes["TwServer"].fields.update(TWF2)
    reg.shapes["TwClient"].fields.update(TWF2)
    CM_MOD = ["self._transport_details", "self.peer", "self.is_closed", "self._session", "self._serializer",
              "self._handshake_complete", "self._handshake_bytes", "self._max_len_send"]
    reg.contract(TXR + ":WampRawSocketProtocol.connectionMade", params={"self": "obj:TwClient"}, modifies=CM_MOD,
                 ensures=INIT + ["self._serializer is None"], **common)
    reg.contract(TXR + ":WampRawSocketClientProtocol.connectionMade", params={"self": "obj:TwClient"},
                 requires=["self.transport is not None", "512 <= self._max_message_size <= 2**24",
                           "1 <= self.factory._serializer.RAWSOCKET_SERIALIZER_ID <= 15"],
                 modifies=CM_MOD + ["self.MAX_LENGTH", "ghost.written", "SerRec.*"],
                 ensures=INIT + [
                     "ghost.written == old(ghost.written) + bytes([127, hs_octet2(%s - 9, "
                     "self.factory._serializer.RAWSOCKET_SERIALIZER_ID), 0, 0])" % E,
                     "self.MAX_LENGTH == 2 ** %s" % E,
                     "self._serializer.RAWSOCKET_SERIALIZER_ID == self.factory._serializer.RAWSOCKET_SERIALIZER_ID"],
                 **common)
    # ---- an over-long incoming frame is refused by the framing layer's hook, never buffered
    reg.contract(TXR + ":WampRawSocketProtocol.lengthLimitExceeded", params={"self": "obj:TwServer", "length": "int"},
                 ensures=["False"], raises={"PayloadExceededError": "True"}, **common)

    # ---- stringReceived: messages are handed to the session in order; whatever goes wrong (undecodable payload,
    #      protocol violation, internal error) aborts the transport exactly once and never escapes
    for shape in ("TwServer", "TwClient"):
        reg.contract(
            TXR + ":WampRawSocketProtocol.stringReceived", name=TXR + ":WampRawSocketProtocol.stringReceived<%s>" % shape,
            params={"self": "obj:" + shape, "payload": "bytes"},
            requires=["self._session is not None and self.transport is not None and self._serializer is not None",
                      "ghost.raised == 0 and not ghost.decoded"],
            modifies=["ghost.raised", "ghost.unser", "ghost.decoded", "ghost.delivered", "ghost.n_onmessage",
                      "ghost.n_drop"],
            ensures=[
                # what the session saw is a prefix, in order, of what the payload decoded to ...
                "implies(ghost.decoded and ghost.raised != 0, ghost.delivered == old(ghost.delivered) + "
                "bytes(ghost.unser)[0:ghost.n_onmessage - old(ghost.n_onmessage)])",
                "implies(not ghost.decoded, ghost.delivered == old(ghost.delivered) and "
                "ghost.n_onmessage == old(ghost.n_onmessage) and ghost.raised != 0)",
                "implies(ghost.raised == 0, ghost.delivered == old(ghost.delivered) + bytes(ghost.unser) and "
                "ghost.n_drop == old(ghost.n_drop))",
                # ... and any failure other than a cancellation tears the transport down, once
                "implies(ghost.raised != 0 and ghost.raised != 5, ghost.n_drop == old(ghost.n_drop) + 1)",
                "implies(ghost.raised == 5, ghost.n_drop == old(ghost.n_drop))"],
            loops={"iter:self._serializer.unserialize(payload)": {"index": "_i", "invariant": [
                "ghost.raised == 0 and ghost.n_drop == old(ghost.n_drop) and ghost.decoded",
                "ghost.n_onmessage == old(ghost.n_onmessage) + _i",
                "ghost.delivered == old(ghost.delivered) + bytes(ghost.unser)[0:_i]"],
                "modifies": ["ghost.delivered", "ghost.n_onmessage", "ghost.raised"],
                "hints": ["seq_snoc(ghost.unser, _i)", "seq_snoc(ghost.unser, _i - 1)"]}},
            hints=["seq_snoc(ghost.unser, ghost.n_onmessage - old(ghost.n_onmessage) - 1)"],
            split_exits=True, **common)
    # ---- connectionLost: the session is told once, then detached; nothing escapes
    reg.shape("Reason", fields={"value": "any"})
    reg.external("txaio.resolve", lambda ex, state, args, kwargs, sv: VNone)
    for shape in ("TwServer", "TwClient"):
        reg.contract(
            TXR + ":WampRawSocketProtocol.connectionLost", name=TXR + ":WampRawSocketProtocol.connectionLost<%s>" % shape,
            params={"self": "obj:" + shape, "reason": "obj:Reason"},
            modifies=["self._session", "ghost.n_onclose"],
            ensures=["self._session is None",
                     "implies(old(self._session) is not None, ghost.n_onclose == old(ghost.n_onclose) + 1)",
                     "implies(old(self._session) is None, ghost.n_onclose == old(ghost.n_onclose))"], **common)
        reg.contract(
            TXR + ":WampRawSocketProtocol.close", name=TXR + ":WampRawSocketProtocol.close<%s>" % shape,
            params={"self": "obj:" + shape}, requires=["self.transport is not None"], modifies=["ghost.n_drop"],
            ensures=["old(self._session) is not None and ghost.n_drop == old(ghost.n_drop) + 1"],
            raises={"TransportLost": "self._session is None"},
            raises_ensures={"TransportLost": ["ghost.n_drop == old(ghost.n_drop)"]}, **common)


def lem_seq_snoc(ex, state, lst, k):
    """instance of the sequence lemma  0 <= k < len(s)  ==>  s[0:k] + [s[k]] == s[0:k+1]  for a list value (any other
    kind of value: no statement); proved stand-alone in extra_checks"""
    res = []
    k = ex.num(k)
    for g, a in alts_of(lst):
        if isinstance(a, VRef) and ex.obj(state, a).kind == "list" and ex.obj(state, a).seq is not None:
            t = ex.obj(state, a).seq
            res.append(z3.Implies(z3.And(g, 0 <= k, k < z3.Length(t)),
                                  z3.Concat(z3.Extract(t, 0, k), z3.Unit(t[k])) == z3.Extract(t, 0, k + 1)))
    return VBool(z3.And(*res) if res else z3.BoolVal(True))


def extra_checks(tier, seed):
    from pyvc.spec_tools import solve
    t = z3.Const("ls", z3.SeqSort(z3.IntSort()))
    k = z3.Int("lk")
    return [solve("C13/lemma/seq-snoc", [0 <= k, k < z3.Length(t)],
                  z3.Concat(z3.Extract(t, 0, k), z3.Unit(t[k])) == z3.Extract(t, 0, k + 1), 20000)]
