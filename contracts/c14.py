"""C14 — Components reconnect within their retry budget and finish exactly once."""
import z3

from pyvc.values import *  # noqa

ASSUMPTIONS = [
    "the asynchronous composition sleep -> attempt_connect -> _connect_once -> callbacks is txaio's (assumed): a callback "
    "registered with add_callbacks runs after its future completed, once",
    "itertools.cycle(xs) yields xs[k mod len(xs)] for k = 0, 1, 2, ... (assumed contract of next())",
    "random.normalvariate returns an arbitrary real; floats are treated as mathematical reals",
    "transport records are pairwise distinct objects; `self._transports` is not mutated after construction",
]

M = "autobahn.wamp.component"
T = M + ":_Transport"
C = M + ":Component"

CAN = "(not {t}._permanent_failure and ({t}.max_retries == -1 or {t}.connect_attempts < {t}.max_retries + 1))"
BUDGET = "({t}.max_retries == -1 or {t}.connect_attempts <= {t}.max_retries + 1)"


def ext_normalvariate(ex, state, args, kwargs, sv):
    return VReal(z3.Real(fresh_name("normalvariate")))


# position k of an endless cycle over n items: cyc(k, n) := k mod n.  Kept as a defined function symbol (only its range
# 0 <= cyc(k, n) < n is needed by the proofs; variable-modulus arithmetic is avoided)
cyc_f = z3.Function("cyc", z3.IntSort(), z3.IntSort(), z3.IntSort())


def sym_cyc(ex, state, k, n):
    k, n = ex.num(k), ex.num(n)
    t = cyc_f(k, n)
    state.assume(z3.Implies(n > 0, z3.And(t >= 0, t < n)))
    return VInt(t)


def ext_cycle_next(ex, state, args, kwargs, sv):
    """next(itertools.cycle(self._transports)): element pos mod n, then pos += 1 (n >= 1 else StopIteration)"""
    gen = args[0]
    o = state.heap[gen.oid]
    lst = ex.obj(state, o.fields["items"])
    pos = o.fields["pos"].t
    n = z3.Length(lst.seq)
    ex.raise_if(state, n == 0, "StopIteration")
    o.fields["pos"] = VInt(simp(pos + 1))
    idx = cyc_f(pos, n)
    state.assume(z3.And(idx >= 0, idx < n))
    return value_of_elem_(lst, idx)


def value_of_elem_(lst, idx):
    from pyvc.engine import value_of_elem
    return value_of_elem(lst.elem, lst.seq[idx])


def _alias_gen(ex, state, env):
    """transport_gen = itertools.cycle(self._transports): the generator iterates the component's own list"""
    gen = state.heap[env["transport_gen"].oid]
    comp = state.heap[env["self"].oid]
    gen.fields["items"] = comp.fields["_transports"]


def build(reg):
    common = dict(props=["C14"], spec_module="specs.c14")
    fields = {"idx": "int", "type": "str", "url": "any", "endpoint": "any", "options": "any", "headers": "any",
              "serializers": "any", "max_retries": "int", "max_retry_delay": "real", "initial_retry_delay": "real",
              "retry_delay_growth": "real", "retry_delay_jitter": "real", "proxy": "any", "_permanent_failure": "bool",
              "connect_attempts": "nat", "connect_sucesses": "nat", "connect_failures": "nat", "retry_delay": "real"}
    reg.shape("Transport", cls=T, fields=fields)
    reg.external("random.normalvariate", ext_normalvariate)
    S = {"self": "obj:Transport"}
    reg.contract(T + ".reset", params=S,
                 modifies=["self.connect_attempts", "self.connect_sucesses", "self.connect_failures", "self.retry_delay"],
                 ensures=["self.connect_attempts == 0 and self.connect_sucesses == 0 and self.connect_failures == 0",
                          "self.retry_delay == self.initial_retry_delay"], **common)
    reg.contract(T + ".failed", params=S, modifies=["self._permanent_failure"],
                 ensures=["self._permanent_failure", "not " + CAN.format(t="self")], **common)
    reg.contract(T + ".can_reconnect", params=S, returns="bool",
                 ensures=["result == " + CAN.format(t="self")], **common)
    reg.contract(
        T + ".next_delay", params=S, returns="real", requires=["self.max_retries >= -1"],
        modifies=["self.retry_delay"],
        ensures=[
            # first attempt without delay; afterwards never more than the configured maximum, whatever the jitter draws
            "implies(self.connect_attempts == 0, result == 0 and self.retry_delay == old(self.retry_delay))",
            "implies(self.connect_attempts != 0, result <= self.max_retry_delay and result == self.retry_delay)",
            "self.max_retries == -1 or self.connect_attempts < self.max_retries + 1",      # budget not exhausted
        ],
        raises={"RuntimeError": "self.connect_attempts != 0 and self.max_retries != -1 and "
                                "self.connect_attempts >= self.max_retries + 1"},
        raises_ensures={"RuntimeError": ["self.retry_delay == old(self.retry_delay)"]}, **common)

    # ---- unbounded family of transports (Boogie-style records) for the component-level units
    reg.external("str.opaque", lambda ex, state, args, kwargs, sv: VStr(z3.String(fresh_name("s"))))
    reg.shape("TRec", cls=T, methods={"describe_endpoint": "str.opaque"}, fields={"idx": "int", "url": "str", "type": "str", "max_retries": "int", "_permanent_failure": "bool",
                                     "connect_attempts": "nat", "connect_sucesses": "nat", "connect_failures": "nat",
                                     "retry_delay": "real", "initial_retry_delay": "real", "retry_delay_growth": "real",
                                     "retry_delay_jitter": "real", "max_retry_delay": "real"})
    # contracts of the record methods as used on symbolic records (same clauses as above; proved above on obj:Transport)
    reg.contract(T + ".can_reconnect", name=T + ".can_reconnect[record]", params={"self": "sym:TRec"}, returns="bool",
                 ensures=["result == " + CAN.format(t="self")], verify=False, **common)
    reg.shape("CycleGen", fields={"items": "list:sym:TRec", "pos": "nat"})
    reg.external("next", lambda ex, state, args, kwargs, sv: ext_cycle_next(ex, state, args, kwargs, sv))
    reg.shape("ComponentS", cls=C, fields={"log": "logger", "_transports": "list:sym:TRec", "_done_f": "any",
                                           "_delay_f": "any", "_stopping": "bool", "_session": "any"})
    reg.contract(
        C + "._can_reconnect", params={"self": "obj:ComponentS"}, returns="bool",
        ensures=["result == exists(k, 0, len(self._transports), %s)" % CAN.format(t="self._transports[k]")],
        loops={0: {"invariant": ["0 <= _i <= len(self._transports)",
                                 "forall(k, 0, _i, not %s)" % CAN.format(t="self._transports[k]")],
                   "pure_calls": True}}, **common)


    # contracts of record methods at call sites on symbolic records (same clauses as proved above)
    reg.contract(T + ".next_delay", name=T + ".next_delay[record]", params={"self": "sym:TRec"}, returns="real",
                 requires=["self.max_retries >= -1"], modifies=["self.retry_delay"],
                 ensures=["implies(self.connect_attempts == 0, result == 0)",
                          "implies(self.connect_attempts != 0, result <= self.max_retry_delay)",
                          "self.max_retries == -1 or self.connect_attempts < self.max_retries + 1"],
                 raises={"RuntimeError": "self.connect_attempts != 0 and self.max_retries != -1 and "
                                         "self.connect_attempts >= self.max_retries + 1"}, verify=False, **common)
    reg.shape("Future", fields={"done": "bool"})
    reg.shape("ComponentF", cls=C, fields={"log": "logger", "_transports": "list:sym:TRec", "_done_f": "obj:Future",
                                           "_delay_f": "any", "_stopping": "bool", "_session": "any"})

    def ext_reject(ex, state, args, kwargs, sv):
        o = state.heap[args[0].oid]
        ex.raise_if(state, o.fields["done"].t, "AlreadyCalledError")
        o.fields["done"] = VBool(True)
        return VNone

    def ext_sleep(ex, state, args, kwargs, sv):
        g = state.heap[state.ghost.oid]
        d = args[0]
        g.fields["last_sleep"] = d if isinstance(d, VReal) else VReal(z3.ToReal(ex.num(d)))
        g.fields["n_sleep"] = VInt(simp(g.fields["n_sleep"].t + 1))
        return VOpaque(fresh_name("sleep_future"))
    reg.external("txaio.reject", ext_reject)
    reg.external("txaio.sleep", ext_sleep)
    reg.external("txaio.add_callbacks", lambda ex, state, args, kwargs, sv: VNone)
    reg.shape("Ghost", fields={"last_sleep": "real", "n_sleep": "nat"}, ghost=True)
    N = "len(self._transports)"
    reg.native_spec("cyc", sym_cyc)
    TR = "self._transports[cyc(%s, " + N + ")]"
    SOME = "exists(k, 0, %s, %s)" % (N, CAN.format(t="self._transports[k]"))
    PICK = TR % "(transport_gen.pos - 1)"
    reg.contract(
        C + "._start/transport_check", params={"_": "any", "self": "obj:ComponentF", "transport_gen": "obj:CycleGen",
                                                "transport_candidate": "clist:1:sym:TRec", "attempt_connect": "func",
                                                "error": "func"},
        setup=_alias_gen,
        requires=["not self._done_f.done",
                  "forall(k, 0, %s, self._transports[k].max_retries >= -1)" % N],
        modifies=["self._done_f.done", "self._delay_f", "transport_gen.pos", "transport_candidate", "TRec.retry_delay",
                  "ghost.last_sleep", "ghost.n_sleep"],
        ensures=[
            # every transport exhausted (or failed): the result of start() is completed with an error, nothing is tried
            "implies(not old(%s), self._done_f.done and ghost.n_sleep == old(ghost.n_sleep) and "
            "transport_gen.pos == old(transport_gen.pos))" % SOME,
            # otherwise the next transport *in cyclic order* that may still reconnect is selected ...
            "implies(old(%s), not self._done_f.done and transport_gen.pos > old(transport_gen.pos) and "
            "transport_candidate[0] is %s and %s)" % (SOME, PICK, CAN.format(t="transport_candidate[0]")),
            "implies(old(%s), forall(j, old(transport_gen.pos), transport_gen.pos - 1, not %s))"
            % (SOME, CAN.format(t=TR % "j")),
            # ... within its budget, first attempt without delay, never waiting longer than the configured maximum
            "implies(old(%s), ghost.n_sleep == old(ghost.n_sleep) + 1 and "
            "ghost.last_sleep <= max(0, transport_candidate[0].max_retry_delay) and "
            "implies(transport_candidate[0].connect_attempts == 0, ghost.last_sleep == 0))" % SOME,
        ],
        raises={"StopIteration": "len(self._transports) == 0"},
        loops={0: {"invariant": [
            "transport_gen.pos >= old(transport_gen.pos) and transport_gen.items is self._transports and " + N + " > 0",
            "forall(j, old(transport_gen.pos), transport_gen.pos, not %s)" % CAN.format(t=TR % "j"),
            SOME, "not self._done_f.done and ghost.n_sleep == old(ghost.n_sleep)",
            "forall(k, 0, %s, self._transports[k].max_retries >= -1)" % N],
            "modifies": ["transport_gen.pos", "transport_candidate"], "vars": {"transport": "sym:TRec"}}},
        **common)


    # ---- one connection attempt: the counter is advanced exactly once, so a transport selected by transport_check
    #      (CAN holds) stays within max_retries + 1 attempts since its last successful join
    reg.external("txaio.create_future", lambda ex, state, args, kwargs, sv: reg.fresh_obj(ex, state, "Future", "fut"))
    reg.external("txaio.as_future", lambda ex, state, args, kwargs, sv: VOpaque(fresh_name("as_future")))
    reg.contract(T + ".reset", name=T + ".reset[record]", params={"self": "sym:TRec"},
                 modifies=["self.connect_attempts", "self.connect_sucesses", "self.connect_failures", "self.retry_delay"],
                 ensures=["self.connect_attempts == 0 and self.connect_sucesses == 0 and self.connect_failures == 0"],
                 verify=False, **common)
    reg.shape("ComponentC", cls=C, fields={"log": "logger", "_transports": "list:sym:TRec", "_done_f": "obj:Future",
                                           "_delay_f": "any", "_stopping": "bool", "_session": "any", "_entry": "any",
                                           "_realm": "any", "_extra": "any", "_authentication": "any",
                                           "session_factory": "any", "_connect_transport": "func"})
    reg.contract(
        C + "._connect_once", params={"self": "obj:ComponentC", "reactor": "any", "transport": "sym:TRec"}, returns="any",
        requires=[CAN.format(t="transport"), "transport.max_retries >= -1"],
        modifies=["TRec.connect_attempts"],
        ensures=["transport.connect_attempts == old(transport.connect_attempts) + 1",
                 BUDGET.format(t="transport")], **common)
    reg.contract(
        C + "._connect_once/on_join", params={"session": "any", "details": "any", "self": "obj:ComponentC",
                                              "transport": "sym:TRec", "reactor": "any", "done": "obj:Future"},
        modifies=["TRec.connect_attempts", "TRec.connect_sucesses", "TRec.connect_failures", "TRec.retry_delay"],
        ensures=["transport.connect_attempts == 0 and transport.connect_sucesses == 1",     # budget restarts at a join
                 "not transport._permanent_failure == (not old(transport._permanent_failure))"], **common)


    build_connect(reg, common)


def build_connect(reg, common):
    """one connection attempt on Twisted: the protocol factory handed to the endpoint is built in this attempt from this
    attempt's session factory (whose closure owns this attempt's completion future); a refused connection counts one
    failure and completes exactly this attempt's future"""
    TW = "autobahn.twisted.component"
    G = reg.shapes["Ghost"].fields
    G.update({"n_factories": "nat", "factory_from": "int", "last_factory": "int", "n_connect": "nat", "connected_with": "int"})

    def ext_mk_factory(ex, state, args, kwargs, sv):
        g = state.heap[state.ghost.oid]
        f = z3.Int(fresh_name("transport_factory"))
        g.fields["n_factories"] = VInt(simp(g.fields["n_factories"].t + 1))
        g.fields["factory_from"] = args[2]
        g.fields["last_factory"] = VInt(f)
        return VInt(f)

    def ext_mk_endpoint(ex, state, args, kwargs, sv):
        ex.raise_if(state, z3.Bool(fresh_name("endpoint_config_invalid")), "ValueError")
        return ex.reg.fresh_obj(ex, state, "EndpointS", "endpoint")

    def ext_ep_connect(ex, state, args, kwargs, sv):
        g = state.heap[state.ghost.oid]
        g.fields["n_connect"] = VInt(simp(g.fields["n_connect"].t + 1))
        g.fields["connected_with"] = args[0]
        return VOpaque(fresh_name("connect_deferred"))
    reg.external(TW + "._create_transport_factory", ext_mk_factory)
    reg.external(TW + "._create_transport_endpoint", ext_mk_endpoint)
    reg.external("endpoint.connect", ext_ep_connect)
    reg.overrides[(TW, "_create_transport_factory")] = VFunc("builtin", TW + "._create_transport_factory")
    reg.overrides[(TW, "_create_transport_endpoint")] = VFunc("builtin", TW + "._create_transport_endpoint")
    reg.shape("EndpointS", fields={}, methods={"connect": "endpoint.connect"})
    reg.shape("TransportCfg", cls=T, fields={"proxy": "none|cdict:host=str,port=int", "endpoint": "any",
                                             "connect_failures": "nat", "connect_attempts": "nat", "url": "any",
                                             "type": "str"})
    reg.shape("ComponentTw", cls=TW + ":Component", fields={"log": "logger"})
    reg.contract(
        TW + ":Component._connect_transport",
        params={"self": "obj:ComponentTw", "reactor": "any", "transport": "obj:TransportCfg", "session_factory": "int",
                "done": "obj:Future"}, returns="any",
        modifies=["ghost.n_factories", "ghost.factory_from", "ghost.last_factory", "ghost.n_connect", "ghost.connected_with"],
        ensures=["ghost.n_connect == old(ghost.n_connect) + 1",
                 # the factory that builds the protocol (and through it the session) of this attempt is created in this
                 # attempt, from the session factory of this attempt -- never one kept from an earlier attempt
                 "ghost.n_factories == old(ghost.n_factories) + 1 and ghost.factory_from == session_factory and "
                 "ghost.connected_with == ghost.last_factory",
                 "done.done == old(done.done)", "transport.connect_failures == old(transport.connect_failures)"],
        raises={"ValueError": "True"}, raises_ensures={"ValueError": ["ghost.n_connect == old(ghost.n_connect)"]}, **common)
    reg.contract(
        TW + ":Component._connect_transport/on_connect_failure",
        params={"err": "any", "self": "obj:ComponentTw", "transport": "obj:TransportCfg", "done": "obj:Future"},
        requires=["not done.done"], modifies=["transport.connect_failures", "done.done"],
        ensures=["transport.connect_failures == old(transport.connect_failures) + 1 and done.done"], **common)


import os as _os
_HISTORY_HARNESS = open(_os.path.join(_os.path.dirname(_os.path.abspath(__file__)), "c14_history_harness.py.txt")).read()


def replay(o):
    """component-level units: connection histories (refused / joined-then-lost / joined-then-left, in every order that
    matters) on the real Twisted Component with a scripted endpoint and a virtual clock; the number of attempts, the
    single completion of start() and the join notifications are checked against the property statement"""
    from pyvc import replaylib as R
    unit = o.get("unit") or o.get("name", "")
    if not any(k in unit for k in ("_connect_transport", "_connect_once", "_start", "transport_check")):
        return {"reproduced": False, "detail": "no replay harness for this unit"}
    out = R.run_py(_HISTORY_HARNESS, env={"USE_TWISTED": "1"}, timeout=300)
    bad = out.get("bad") if isinstance(out, dict) else None
    return {"reproduced": bool(bad), "cases": (bad or [])[:4], "observed": out if not bad else {"cases": out.get("cases")},
            "detail": "connection histories on the real Twisted Component (scripted endpoint, virtual clock)"}


def extra_checks(tier, seed):
    if tier != "thorough":
        return []
    from pyvc import replaylib as R
    return [R.native_crosscheck("C14/bounded/connection-histories", _HISTORY_HARNESS,
                                "7 histories of refused / lost / left connections on the real Twisted Component")]
