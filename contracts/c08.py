"""C08 — Untrusted WAMP input is either a valid message or a protocol error.

Field validators (ids, URIs, realm names) are proved equal to spec languages built here from the WAMP specification
text; untrusted values are unions over the Python types a deserializer can produce.
"""
import z3

from pyvc.values import *  # noqa
from pyvc import regex as R

ASSUMPTIONS = [
    "a deserialized value is one of: int, bool, str, None, float, bytes, list, dict (sets, tuples and extension types of the binary codecs are not produced by the configured decoders -- not decided here)",
    "Python's `re` semantics are taken from CPython's own pattern parser (pyvc.regex): `$` also matches before a trailing "
    "newline, \\d / \\s are the Unicode classes; characters are limited to z3's range (<= U+2FFFF)",
    "an object codec's unserialize() returns a list (of anything) or raises an Exception subclass; "
    "KeyboardInterrupt-like BaseExceptions are not wrapped and not considered",
    "spec whitespace = the characters with str.isspace() (Unicode White_Space plus the ASCII separators FS GS RS US)",
]
LEVEL = "other"     # validators, 23 of the 25 parse() functions and the unserialize envelope are proved; Hello / Welcome are bounded
NOT_COVERED = ["Hello.parse and Welcome.parse as proofs (role objects built with role_cls(**features), custom attributes collected by "
               "iterating the details): a bounded enumeration on the real code stands in, labelled bounded",
               "Serializer.unserialize with a statistics auto-reset callback configured (a user callback may raise anything), "
               "and the flatbuffers branch",
               "arbitrary octets through the third-party codecs (json / msgpack / cbor2 / ubjson)",
               "role.py feature classes"]
MSG = "autobahn.wamp.message"
UNTRUSTED = "int|bool|str|none|real|bytes|ulist:any|udict:"
RS = R.RS


def _cls(*parts):
    return R._union(list(parts))


def _lit(s):
    return z3.Re(z3.StringVal(s))


def uri_lang(strict, last_empty, empty):
    """WAMP URI grammar from the specification: components separated by '.'; strict components are [0-9a-z_]+, loose
    components are non-empty runs without whitespace, '.' and '#'; prefix matching allows an empty last component,
    wildcard matching allows empty components"""
    if strict:
        ch = _cls(z3.Range("0", "9"), z3.Range("a", "z"), _lit("_"))
    else:
        ws = R._category(R.C.CATEGORY_SPACE)
        ch = R._not_char(_cls(ws, _lit("."), _lit("#")))
    comp = z3.Plus(ch)
    dot = _lit(".")
    if last_empty:
        return z3.Concat(z3.Star(z3.Concat(comp, dot)), z3.Option(comp))
    if empty:
        return z3.Concat(z3.Star(z3.Union(z3.Concat(comp, dot), dot)), z3.Option(comp))
    return z3.Concat(z3.Star(z3.Concat(comp, dot)), comp)


def sym_uri_ok(ex, state, s, strict, ale, ae):
    def lang(st):
        return z3.If(ale.t, z3.InRe(s.t, uri_lang(st, True, False)),
                     z3.If(ae.t, z3.InRe(s.t, uri_lang(st, False, True)), z3.InRe(s.t, uri_lang(st, False, False))))
    return VBool(z3.If(strict.t, lang(True), lang(False)))


def realm_lang(eth):
    alnum = _cls(z3.Range("A", "Z"), z3.Range("a", "z"))
    tail = _cls(z3.Range("A", "Z"), z3.Range("a", "z"), z3.Range("0", "9"), _lit("_"), _lit("-"), _lit("@"), _lit("."))
    name = z3.Concat(alnum, z3.Loop(tail, 2, 254))
    if not eth:
        return name
    hexd = _cls(z3.Range("A", "F"), z3.Range("a", "f"), z3.Range("0", "9"))
    return z3.Union(name, z3.Concat(_lit("0x"), z3.Loop(hexd, 40, 40)))


def build(reg):
    common = dict(props=["C08"], spec_module="specs.wampuri")
    reg.native_spec("uri_ok", sym_uri_ok)
    reg.native_spec("realm_ok", lambda ex, state, s, eth: VBool(z3.If(eth.t, z3.InRe(s.t, realm_lang(True)),
                                                                      z3.InRe(s.t, realm_lang(False)))))
    IS_ID = "isinstance(value, int) and not isinstance(value, bool) and id_ok(value)"
    reg.contract(MSG + ":check_or_raise_id", params={"value": UNTRUSTED, "message": "str"}, returns=UNTRUSTED,
                 ensures=[IS_ID, "result is value"], raises={"ProtocolError": "not (%s)" % IS_ID}, **common)
    IS_URI = ("(value is None and allow_none) or (isinstance(value, str) and "
              "uri_ok(value, strict, allow_last_empty, allow_empty_components))")
    reg.contract(MSG + ":check_or_raise_uri",
                 params={"value": UNTRUSTED, "message": "str", "strict": "bool", "allow_empty_components": "bool",
                         "allow_last_empty": "bool", "allow_none": "bool"}, returns=UNTRUSTED,
                 ensures=[IS_URI, "result is value"], raises={"InvalidUriError": "not (%s)" % IS_URI}, **common)
    IS_REALM = "isinstance(value, str) and realm_ok(value, allow_eth)"
    reg.contract(MSG + ":check_or_raise_realm_name", params={"value": UNTRUSTED, "message": "str", "allow_eth": "bool"},
                 returns=UNTRUSTED, ensures=[IS_REALM, "result is value"], raises={"InvalidUriError": "not (%s)" % IS_REALM},
                 **common)
    def str_keys(ex, state, d):
        def f(a):
            o = ex.obj(state, a) if isinstance(a, VRef) else None
            if o is not None and o.kind == "udict":
                return VBool(z3.Not(z3.And(o.other, o.alien)))      # the declared keys are strings by construction
            if o is not None and o.kind == "dict" and o.d is not None:
                return VBool(all(isinstance(k, str) for k in o.d))
            raise Unsupported("str_keys of %r" % (a,))
        return ex.dist(state, [d], f)
    reg.native_spec("str_keys", str_keys)
    EXTRA_OK = "type(value) == dict and str_keys(value)"
    reg.contract(MSG + ":check_or_raise_extra", params={"value": UNTRUSTED, "message": "str"}, returns="any",
                 ensures=[EXTRA_OK, "result is value"], raises={"ProtocolError": "not (%s)" % EXTRA_OK}, **common)
    KW_OK = "value is None or (type(value) == dict and str_keys(value))"
    reg.contract(MSG + ":_validate_kwargs", params={"kwargs": UNTRUSTED, "message": "str"}, returns="any",
                 ensures=[KW_OK.replace("value", "kwargs"), "result is kwargs"],
                 raises={"ProtocolError": "not (%s)" % KW_OK.replace("value", "kwargs")}, **common)
    # payload transparency attributes: a standard name or "x_" + optionally [a-z][0-9a-z_]+   (WAMP payload passthru mode)
    lo, dg = z3.Range("a", "z"), z3.Range("0", "9")
    custom = z3.Concat(_lit("x_"), z3.Loop(z3.Concat(lo, z3.Plus(_cls(lo, dg, _lit("_")))), 0, 1))
    reg.native_spec("enc_algo_ok", lambda ex, state, x: VBool(z3.InRe(x.t, z3.Union(_lit("cryptobox"), _lit("mqtt"), _lit("xbr"), custom))))
    reg.native_spec("enc_ser_ok", lambda ex, state, x: VBool(z3.InRe(x.t, z3.Union(
        _lit("json"), _lit("msgpack"), _lit("cbor"), _lit("ubjson"), _lit("flatbuffers"), custom))))
    for fn, spec in (("is_valid_enc_algo", "enc_algo_ok"), ("is_valid_enc_serializer", "enc_ser_ok")):
        arg = "enc_algo" if fn == "is_valid_enc_algo" else "enc_serializer"
        ok = "type(%s) == str and %s(%s)" % (arg, spec, arg)
        # the function returns a bool, None or a match object: only the truth value of the result is specified
        reg.contract(MSG + ":" + fn, params={arg: UNTRUSTED}, returns="truth",
                     ensures=["implies(%s, result)" % ok, "implies(not (%s), not result)" % ok], **common)
    parse_units(reg, common)
    unserialize_unit(reg, common)


# ------------------------------------------------------------------------------------------- Serializer.unserialize
def unserialize_unit(reg, common):
    """the envelope: the codec's result (anything a codec can return, or any exception) is checked element by element
    before the per-class parse() is called -- whose precondition (a non-empty list headed by the int the class is
    registered under) becomes an obligation at the call site; nothing but ProtocolError / InvalidUriError leaves"""
    SER = "autobahn.wamp.serializer"

    def ext_codec_unserialize(ex, state, args, kwargs, sv):
        ex.raise_if(state, z3.Bool(fresh_name("codec_raises")), "Exception")        # any exception of the third-party codec
        return ex.reg.fresh(ex, state, "ulist:@SL", "raw_msgs")   # a list of (scalar | list of anything | dict)

    def ext_map_get(ex, state, args, kwargs, sv):
        # MESSAGE_TYPE_MAP.get(code): None, or the class registered under that code (lemma below: MAP[c].MESSAGE_TYPE == c)
        k = ex.reg.fresh_obj(ex, state, "Klass", "klass")
        state.assume(ex.eq(state, ex.obj(state, k).fields["code"], args[0]))
        return mk_union([(z3.Bool(fresh_name("unknown_code")), VNone), (z3.BoolVal(True), k)])

    def ext_klass_parse(ex, state, args, kwargs, sv):
        w = args[0]
        pre = z3.And(ex.truthy(state, ex.call_builtin(state, "isinstance", [w, VClass("list")])) if False else z3.BoolVal(True))
        ok = []
        for g, a in alts_of(w):
            o = ex.obj(state, a) if isinstance(a, VRef) else None
            if o is not None and o.kind == "ulist":
                head = ex.reg.ulist_get(ex, state, o, z3.IntVal(0))
                is_code = disj([z3.And(g2, h.t == ex.obj(state, sv).fields["code"].t) for g2, h in alts_of(head) if isinstance(h, VInt)])
                ok.append(z3.And(g, o.n > 0, is_code))
        ex.oblige("call-requires", state, disj(ok), label="Klass.parse",
                  info={"clause": "type(wmsg) == list and len(wmsg) > 0 and type(wmsg[0]) == int and wmsg[0] == Klass.MESSAGE_TYPE"})
        state.assume(disj(ok))
        ex.raise_if(state, z3.Bool(fresh_name("parse_protocol_error")), "ProtocolError")
        ex.raise_if(state, z3.Bool(fresh_name("parse_uri_error")), "InvalidUriError")
        return VInt(z3.Int(fresh_name("message")))       # a handle for the message object parse() built
    reg.external("codec.unserialize", ext_codec_unserialize)
    reg.external("typemap.get", ext_map_get)
    reg.external("klass.parse", ext_klass_parse)
    reg.external("math.ceil", lambda ex, state, args, kwargs, sv: VInt(z3.Int(fresh_name("ceil"))))
    reg.shape("Codec", fields={"BINARY": "bool", "NAME": "str"}, methods={"unserialize": "codec.unserialize"})
    reg.shape("TypeMap", fields={}, methods={"get": "typemap.get"})
    reg.shape("Klass", fields={"code": "int"}, methods={"parse": "klass.parse"})
    reg.shape("Ser", cls=SER + ":Serializer", fields={
        "_serializer": "obj:Codec", "MESSAGE_TYPE_MAP": "obj:TypeMap", "RATED_MESSAGE_SIZE": "range:1:1000000",
        "_unserialized_bytes": "int", "_unserialized_messages": "int", "_unserialized_rated_messages": "int",
        "_autoreset_callback": "none", "_autoreset_duration": "any", "_autoreset_rated_messages": "any", "_stats_reset": "any"})
    reg.contract(SER + ":Serializer.unserialize", params={"self": "obj:Ser", "payload": "bytes", "isBinary": "opt:bool"},
                 returns="any", requires=["self._serializer.NAME != 'flatbuffers'"],
                 modifies=["self._unserialized_bytes", "self._unserialized_messages", "self._unserialized_rated_messages"],
                 ensures=["type(result) == list", "implies(isBinary is not None, isBinary == self._serializer.BINARY)"],
                 raises={"ProtocolError": "True", "InvalidUriError": "True"},
                 loops={"iter:raw_msgs": {"index": "_k", "invariant": ["type(msgs) == list"], "modifies": ["msgs"],
                                          "vars": {"msgs": "list:int"}, "pure_calls": True}},
                 **dict(common, spec_module="specs.wampuri"))


# ----------------------------------------------------------------------------------------------- per-class parse()
SCALAR = "int|bool|str|none|real|bytes"
FF_OK = ("type(%s) == dict and 'session' in %s and type(%s['session']) == int and 'authid' in %s and "
         "(%s['authid'] is None or type(%s['authid']) == str) and 'authrole' in %s and type(%s['authrole']) == str")


def parse_units(reg, common):
    """Cls.parse(wmsg) for an untrusted wmsg: a list of unknown length (type ulist) whose elements are, independently,
    any scalar, a list or a dict; the option / details dict lists the keys the class reads (the engine refuses a read of
    any other key), each with an untrusted value, and may hold further keys of any type"""
    A = reg.type_aliases
    A["L"] = "ulist:any"                                            # a list nobody looks into
    A["D"] = "udict:"                                               # a dict nobody looks into
    A["V"] = SCALAR + "|@L|@D"
    A["FFE"] = SCALAR + "|@L|udict:session=@V,authid=@V,authrole=@V"
    A["FF"] = SCALAR + "|ulist:@FFE|@D"

    def unit(cls, options, ensures, extra_inline=(), loops=None, more_inline=()):
        A["W" + cls] = SCALAR + "|@L|udict:" + ",".join("%s=%s" % kv for kv in options.items())
        inl = [MSG + ":%s.%s" % (cls, x) for x in ["__init__"] + list(extra_inline)] + [
            MSG + ":Message.__init__", MSG + ":check_or_raise_extra", MSG + ":_validate_kwargs",
            MSG + ":MessageWithForwardFor.forward_for", MSG + ":MessageWithForwardFor.__init__",
            MSG + ":MessageWithForwardFor._init_forward_for"] + list(more_inline)
        reg.contract(MSG + ":%s.parse" % cls, params={"wmsg": "ulist:@W" + cls}, returns="any",
                     requires=["len(wmsg) > 0", "type(wmsg[0]) == int and wmsg[0] == %s.MESSAGE_TYPE" % cls],
                     ensures=["isinstance(result, %s)" % cls] + ensures,
                     raises={"ProtocolError": "True", "InvalidUriError": "True"},
                     inline_calls=inl, loops=loops or {}, **common)
        if loops:
            reg.inline_loops[MSG + ":%s.parse" % cls] = loops      # for units that inline parse() (C03 round trips)
            # the constructor walks the chain again with assertions: no invariant of its own, every assertion has to
            # follow from what parse() established
            reg.inline_loops[MSG + ":%s.__init__" % cls] = {"iter:forward_for": {"index": "_j", "invariant": [], "modifies": [],
                                                                                 "pure_calls": True}}
    # the element predicate, one invariant per conjunct (each guarded by "is a dict"): four small inductive steps instead of
    # one large one -- the conjunction is FF_OK
    E = "forward_for[q]"
    FF_PARTS = ["type(%s) == dict" % E,
                "implies(type(%s) == dict, 'session' in %s and type(%s['session']) == int)" % (E, E, E),
                "implies(type(%s) == dict, 'authid' in %s and (%s['authid'] is None or type(%s['authid']) == str))" % (E, E, E, E),
                "implies(type(%s) == dict, 'authrole' in %s and type(%s['authrole']) == str)" % (E, E, E)]
    FF_LOOP = {"iter:forward_for": {"index": "_j", "invariant": ["forall(q, 0, _j, %s)" % c for c in FF_PARTS],
                                    "modifies": [], "pure_calls": True}}
    FF_ENS = "implies(result.forward_for is not None, type(result.forward_for) == list and forall(q, 0, len(result.forward_for), %s))" \
        % FF_OK.replace("%s", "result.forward_for[q]")
    def ID(f, i):
        return "type(result.%s) == int and id_ok(result.%s) and result.%s == wmsg[%d]" % (f, f, f, i)

    def URI(f, src, flags="False, False, False"):
        return "type(result.%s) == str and uri_ok(result.%s, %s) and result.%s == %s" % (f, f, flags, f, src)

    def OPT(f, i, typ, key=None):
        key = key or f
        return ["result.%s is None or type(result.%s) == %s" % (f, f, typ),
                "implies('%s' in wmsg[%d], result.%s == wmsg[%d]['%s'])" % (key, i, f, i, key),
                "implies('%s' not in wmsg[%d], result.%s is None)" % (key, i, f)]

    def FF(i):
        return ["('forward_for' in wmsg[%d]) == (result.forward_for is not None)" % i, FF_ENS]
    unit("Subscribe", {"match": "@V", "get_retained": "@V", "forward_for": "@FF"},
         [ID("request", 1), URI("topic", "wmsg[3]", "False, False, True"),
          "result.match == 'exact' or result.match == 'prefix' or result.match == 'wildcard'",
          "implies('match' in wmsg[2], result.match == wmsg[2]['match'])"] + OPT("get_retained", 2, "bool") + FF(2),
         extra_inline=["request", "topic", "match", "get_retained"], loops=FF_LOOP)
    unit("Published", {}, [ID("request", 1), ID("publication", 2)], extra_inline=["request", "publication"])
    unit("Subscribed", {}, [ID("request", 1), ID("subscription", 2)], extra_inline=["request", "subscription"])
    unit("Registered", {}, [ID("request", 1), ID("registration", 2)], extra_inline=["request", "registration"])
    unit("EventReceived", {}, [ID("publication", 1)], extra_inline=["publication"])
    unit("Abort", {"message": "@V"}, [URI("reason", "wmsg[2]")] + OPT("message", 1, "str"), extra_inline=["reason", "message"])
    unit("Goodbye", {"message": "@V", "resumable": "@V"},
         [URI("reason", "wmsg[2]")] + OPT("message", 1, "str") + OPT("resumable", 1, "bool"),
         extra_inline=["reason", "message", "resumable"])
    unit("Challenge", {}, ["type(result.method) == str and result.method == wmsg[1]", "result.extra == wmsg[2]"],
         extra_inline=["method", "extra"])
    unit("Authenticate", {}, ["type(result.signature) == str and result.signature == wmsg[1]", "result.extra == wmsg[2]"],
         extra_inline=["signature", "extra"])
    unit("Cancel", {"mode": "@V", "forward_for": "@FF"},
         [ID("request", 1), "result.mode is None or result.mode == 'skip' or result.mode == 'killnowait' or result.mode == 'kill'"]
         + OPT("mode", 2, "str")[1:] + FF(2), extra_inline=["request", "mode"], loops=FF_LOOP)
    unit("Interrupt", {"mode": "@V", "reason": "@V", "forward_for": "@FF"},
         [ID("request", 1), "result.mode is None or result.mode == 'killnowait' or result.mode == 'kill'"]
         + OPT("mode", 2, "str")[1:] + ["implies(result.reason is not None, " + URI("reason", "wmsg[2]['reason']") + ")",
                                         "('reason' in wmsg[2]) == (result.reason is not None)"] + FF(2),
         extra_inline=["request", "mode", "reason"], loops=FF_LOOP)
    unit("Unsubscribe", {"forward_for": "@FF"},
         [ID("request", 1), ID("subscription", 2),
          "implies(result.forward_for is not None, len(wmsg) == 4 and 'forward_for' in wmsg[3])", FF_ENS],
         extra_inline=["request", "subscription"], loops=FF_LOOP)
    unit("Unregister", {"forward_for": "@FF"},
         [ID("request", 1), ID("registration", 2),
          "implies(result.forward_for is not None, len(wmsg) == 4 and 'forward_for' in wmsg[3])", FF_ENS],
         extra_inline=["request", "registration"], loops=FF_LOOP)
    def ONEOF(f, vals):
        return " or ".join("result.%s == %r" % (f, v) for v in vals)
    unit("Register", {"match": "@V", "invoke": "@V", "concurrency": "@V", "force_reregister": "@V", "forward_for": "@FF"},
         [ID("request", 1),
          "type(result.procedure) == str and result.procedure == wmsg[3] and "
          "uri_ok(result.procedure, False, result.match == 'prefix', result.match == 'wildcard')",
          ONEOF("match", ["exact", "prefix", "wildcard"]), "implies('match' in wmsg[2], result.match == wmsg[2]['match'])",
          ONEOF("invoke", ["single", "first", "last", "roundrobin", "random"]),
          "implies('invoke' in wmsg[2], result.invoke == wmsg[2]['invoke'])",
          "result.concurrency is None or (type(result.concurrency) == int and result.concurrency > 0)",
          "implies('concurrency' in wmsg[2], result.concurrency == wmsg[2]['concurrency'])",
          "result.force_reregister is None or type(result.force_reregister) == bool",
          "implies('force_reregister' in wmsg[2] and wmsg[2]['force_reregister'] is not None, "
          "result.force_reregister == wmsg[2]['force_reregister'])"] + FF(2),
         extra_inline=["request", "procedure", "match", "invoke", "concurrency", "force_reregister"], loops=FF_LOOP)
    ENC_OPTS = {"enc_algo": "@V", "enc_key": "@V", "enc_serializer": "@V"}
    ENC_INL = ["args", "kwargs", "payload", "enc_algo", "enc_key", "enc_serializer"]
    PAYLOAD_INL = [MSG + ":MessageWithAppPayload._init_app_payload"] + \
        [MSG + ":MessageWithAppPayload." + x for x in ENC_INL]

    def PAYLOAD(i, lenient_args=False):
        """wmsg[i] is the args / payload position, wmsg[i + 1] the kwargs position"""
        if lenient_args:
            # PUBLISH takes pre-serialized args (str / bytes) as well -- its constructor documents them; whether that is
            # "wrongly typed" is not something the property settles, so only the correspondence with the input is stated
            r = PAYLOAD(i)
            r[1] = "result.args is None or type(result.args) == list or type(result.args) == str or type(result.args) == bytes"
            r[3] = "implies(len(wmsg) > %d and result.payload is None, result.args is wmsg[%d])" % (i, i)
            return r
        return ["result.payload is None or type(result.payload) == bytes",
                "result.args is None or type(result.args) == list",
                "result.kwargs is None or (type(result.kwargs) == dict and str_keys(result.kwargs))",
                # a null in the args position is what the library's own marshal() emits for "kwargs but no args": it is
                # accepted as "no args" (re-marshalled equivalently), anything else must be a list
                "implies(len(wmsg) > %d and result.payload is None, (wmsg[%d] is None or type(wmsg[%d]) == list) and "
                "result.args is wmsg[%d])" % (i, i, i, i),
                "implies(len(wmsg) > %d, result.payload is None and result.kwargs is wmsg[%d])" % (i + 1, i + 1),
                "implies(result.payload is not None, len(wmsg) == %d and result.payload == wmsg[%d])" % (i + 1, i),
                "result.enc_algo is None or (type(result.enc_algo) == str and enc_algo_ok(result.enc_algo))",
                "result.enc_key is None or type(result.enc_key) == str",
                "result.enc_serializer is None or (type(result.enc_serializer) == str and enc_ser_ok(result.enc_serializer))",
                "implies(result.payload is None, result.enc_algo is None and result.enc_key is None and "
                "result.enc_serializer is None)"]

    def SESSION(f, i, key=None):
        key = key or f
        return ["result.%s is None or (type(result.%s) == int and id_ok(result.%s))" % (f, f, f),
                "implies('%s' in wmsg[%d], result.%s == wmsg[%d]['%s'])" % (key, i, f, i, key)]
    unit("Yield", dict({"progress": "@V", "callee": "@V", "callee_authid": "@V", "callee_authrole": "@V", "forward_for": "@FF"},
                       **ENC_OPTS),
         [ID("request", 1)] + PAYLOAD(3) + OPT("progress", 2, "bool") + SESSION("callee", 2) + OPT("callee_authid", 2, "str")
         + OPT("callee_authrole", 2, "str") + FF(2),
         extra_inline=["request", "progress", "callee", "callee_authid", "callee_authrole"], loops=FF_LOOP, more_inline=PAYLOAD_INL)
    CALLEE = {"callee": "@V", "callee_authid": "@V", "callee_authrole": "@V", "forward_for": "@FF"}

    def CALLEE_ENS(i):
        return SESSION("callee", i) + OPT("callee_authid", i, "str") + OPT("callee_authrole", i, "str") + FF(i)
    unit("Result", dict(CALLEE, progress="@V", **ENC_OPTS),
         [ID("request", 1)] + PAYLOAD(3) + OPT("progress", 2, "bool") + CALLEE_ENS(2),
         extra_inline=["request", "progress", "callee", "callee_authid", "callee_authrole"], loops=FF_LOOP, more_inline=PAYLOAD_INL)
    unit("Error", dict(CALLEE, **ENC_OPTS),
         ["type(result.request_type) == int and result.request_type == wmsg[1] and (" +
          " or ".join("result.request_type == %d" % t for t in (32, 34, 16, 64, 66, 48, 68)) + ")",
          ID("request", 2), URI("error", "wmsg[4]")] + PAYLOAD(5) + CALLEE_ENS(3),
         extra_inline=["request_type", "request", "error", "callee", "callee_authid", "callee_authrole"], loops=FF_LOOP,
         more_inline=PAYLOAD_INL)
    CALLER = {"caller": "@V", "caller_authid": "@V", "caller_authrole": "@V", "forward_for": "@FF"}

    def CALLER_ENS(i):
        return SESSION("caller", i) + OPT("caller_authid", i, "str") + OPT("caller_authrole", i, "str") + FF(i)

    def TIMEOUT(i):
        return ["result.timeout is None or (type(result.timeout) == int and result.timeout >= 0)",
                "implies('timeout' in wmsg[%d], result.timeout == wmsg[%d]['timeout'])" % (i, i)]
    unit("Call", dict(CALLER, timeout="@V", receive_progress="@V", transaction_hash="@V", **ENC_OPTS),
         [ID("request", 1), URI("procedure", "wmsg[3]")] + PAYLOAD(4) + TIMEOUT(2) + OPT("receive_progress", 2, "bool")
         + OPT("transaction_hash", 2, "str") + CALLER_ENS(2),
         extra_inline=["request", "procedure", "timeout", "receive_progress", "transaction_hash", "caller", "caller_authid",
                       "caller_authrole"], loops=FF_LOOP, more_inline=PAYLOAD_INL)
    unit("Invocation", dict(CALLER, timeout="@V", receive_progress="@V", transaction_hash="@V", procedure="@V", **ENC_OPTS),
         [ID("request", 1), ID("registration", 2)] + PAYLOAD(4) + TIMEOUT(3) + OPT("receive_progress", 3, "bool")
         + OPT("transaction_hash", 3, "str") + CALLER_ENS(3)
         + ["implies(result.procedure is not None, " + URI("procedure", "wmsg[3]['procedure']") + ")",
            "('procedure' in wmsg[3]) == (result.procedure is not None)"],
         extra_inline=["request", "registration", "timeout", "receive_progress", "transaction_hash", "caller", "caller_authid",
                       "caller_authrole", "procedure"], loops=FF_LOOP, more_inline=PAYLOAD_INL)
    unit("Event", dict({"publisher": "@V", "publisher_authid": "@V", "publisher_authrole": "@V", "topic": "@V", "retained": "@V",
                        "transaction_hash": "@V", "x_acknowledged_delivery": "@V", "forward_for": "@FF"}, **ENC_OPTS),
         [ID("subscription", 1), ID("publication", 2)] + PAYLOAD(4) + SESSION("publisher", 3) + OPT("publisher_authid", 3, "str")
         + OPT("publisher_authrole", 3, "str") + OPT("retained", 3, "bool") + OPT("transaction_hash", 3, "str")
         + OPT("x_acknowledged_delivery", 3, "bool") + FF(3)
         + ["implies(result.topic is not None, " + URI("topic", "wmsg[3]['topic']") + ")",
            "('topic' in wmsg[3]) == (result.topic is not None)"],
         extra_inline=["subscription", "publication", "publisher", "publisher_authid", "publisher_authrole", "topic", "retained",
                       "transaction_hash", "x_acknowledged_delivery"], loops=FF_LOOP, more_inline=PAYLOAD_INL)
    # PUBLISH: six white / black lists (session ids, authids, authroles), each walked by parse() and again by the constructor
    A["SL"] = SCALAR + "|ulist:@V|@D"
    LISTS = {"exclude": "int", "eligible": "int", "exclude_authid": "str", "exclude_authrole": "str", "eligible_authid": "str",
             "eligible_authrole": "str"}
    pub_loops = dict(FF_LOOP)
    ctor_loops = {"iter:forward_for": {"index": "_j", "invariant": [], "modifies": [], "pure_calls": True}}
    pub_ens = []
    for f, ty in LISTS.items():
        elem_ok = "type(%%s[q]) == %s" % ty + (" and id_ok(%s[q])" if ty == "int" else "")
        inv = elem_ok.replace("%s", "option_" + f)
        pub_loops["iter:option_" + f] = {"index": "_j", "invariant": ["forall(q, 0, _j, %s)" % inv], "modifies": [], "pure_calls": True}
        ctor_loops["iter:" + f] = {"index": "_j", "invariant": [], "modifies": [], "pure_calls": True}
        pub_ens += ["implies(result.%s is not None, type(result.%s) == list and forall(q, 0, len(result.%s), %s))"
                    % (f, f, f, elem_ok.replace("%s", "result." + f)),
                    "implies('%s' in wmsg[2], result.%s is wmsg[2]['%s'])" % (f, f, f),
                    "implies('%s' not in wmsg[2], result.%s is None)" % (f, f)]
    unit("Publish", dict({k: "@SL" for k in LISTS}, acknowledge="@V", exclude_me="@V", retain="@V", transaction_hash="@V",
                         forward_for="@FF", **ENC_OPTS),
         [ID("request", 1), URI("topic", "wmsg[3]")] + PAYLOAD(4, lenient_args=True) + OPT("acknowledge", 2, "bool")
         + OPT("exclude_me", 2, "bool") + OPT("retain", 2, "bool") + OPT("transaction_hash", 2, "str") + pub_ens + FF(2),
         extra_inline=["request", "topic", "acknowledge", "exclude_me", "retain", "transaction_hash"] + list(LISTS),
         loops=pub_loops, more_inline=PAYLOAD_INL)
    reg.inline_loops[MSG + ":Publish.__init__"] = ctor_loops
    for cls, f in (("Unsubscribed", "subscription"), ("Unregistered", "registration")):
        unit(cls, {f: "@V", "reason": "@V"},
             [ID("request", 1),
              "implies(result.%s is not None, type(result.%s) == int and id_ok(result.%s) and len(wmsg) == 3 and "
              "result.%s == wmsg[2]['%s'])" % (f, f, f, f, f),
              "implies(result.reason is not None, len(wmsg) == 3 and " + URI("reason", "wmsg[2]['reason']") + ")"],
             extra_inline=["request", f, "reason"])

_BOUNDED_HARNESS = r'''
import json, itertools
import txaio; txaio.use_asyncio()
from autobahn.wamp import message as M
from autobahn.wamp.exception import ProtocolError, InvalidUriError
VALS = [0, 1, -1, 2 ** 53, 2 ** 53 + 1, True, False, None, 1.5, 0.0, 1.0, "a.b", "", "a b", "x_y", b"x", [], [1], ["a"], {}, {"x": 1}, {1: 2},
        [{}], {"features": {}}, {"features": {"x": 1}}, {"features": 1}, {"caller": {}}, {"broker": {}}, {"bogus": {}}]
BASES = {
    "Hello": [[1, "realm1", {"roles": {"caller": {}}}],
              [1, "realm1", {"roles": {"subscriber": {"features": {"publisher_identification": True}}, "callee": {}},
                             "authmethods": ["wampcra"], "authid": "a", "authrole": "r", "authextra": {}, "resumable": True,
                             "resume-session": 1, "resume-token": "t"}],
              [1, None, {"roles": {"publisher": {}}}]],
    "Welcome": [[2, 1, {"roles": {"broker": {}}}],
                [2, 1, {"roles": {"dealer": {"features": {"caller_identification": True}}, "broker": {}}, "realm": "realm1",
                        "authid": "a", "authrole": "r", "authmethod": "m", "authprovider": "p", "authextra": {}, "resumed": True,
                        "resumable": True, "resume_token": "t", "x_custom": 1}]],
}
KEYS = {"Hello": ["roles", "authmethods", "authid", "authrole", "authextra", "resumable", "resume-session", "resume-token"],
        "Welcome": ["roles", "realm", "authid", "authrole", "authmethod", "authprovider", "authextra", "resumed", "resumable",
                    "resume_token", "x_custom", "x_"]}
TYPES = {"realm": (str,), "authid": (str,), "authrole": (str,), "authmethod": (str,), "authprovider": (str,), "authextra": (dict,),
         "resumed": (bool,), "resumable": (bool,), "resume_token": (str,), "resume_session": (int,), "authmethods": (list,)}

def variants(cls, base):
    yield list(base)
    for n in range(1, len(base) + 2):
        yield (list(base) + [0, 0])[:n]
    for i in range(1, len(base)):
        for v in VALS:
            w = list(base); w[i] = v
            yield w
    di = len(base) - 1
    for k in KEYS[cls]:
        for v in VALS:
            w = list(base); w[di] = dict(base[di]); w[di][k] = v
            yield w
    if PAIRS:
        singles = [(k, v) for k in KEYS[cls] for v in VALS]
        for (k1, v1), (k2, v2) in itertools.combinations(singles, 2):
            if k1 != k2:
                w = list(base); w[di] = dict(base[di]); w[di][k1] = v1; w[di][k2] = v2
                yield w
    for role in list(base[di]["roles"]) + ["bogus"]:
        for v in VALS:
            w = list(base); w[di] = dict(base[di]); w[di]["roles"] = dict(base[di]["roles"]); w[di]["roles"][role] = v
            yield w
            w = list(base); w[di] = dict(base[di]); w[di]["roles"] = dict(base[di]["roles"]); w[di]["roles"][role] = {"features": {"caller_identification": v}}
            yield w

bad, n = [], 0
for cls_name in ("Hello", "Welcome"):
    cls = getattr(M, cls_name)
    for base in BASES[cls_name]:
        for w in variants(cls_name, base):
            n += 1
            try:
                r = cls.parse(w)
            except (ProtocolError, InvalidUriError):
                continue
            except Exception as e:
                bad.append({"cls": cls_name, "wmsg": repr(w), "problem": "parse() raised %s (%s)" % (type(e).__name__, e)})
                continue
            for f, ts in TYPES.items():
                if hasattr(r, f):
                    v = getattr(r, f)
                    if v is not None and type(v) not in ts:
                        bad.append({"cls": cls_name, "wmsg": repr(w), "problem": "accepted with %s = %r" % (f, v)})
            # role feature flags of an accepted message are booleans (type-strict: 0 / 1 / 1.0 are not) or absent
            for rname, feats in (getattr(r, "roles", None) or {}).items():
                for fk, fv in vars(feats).items():
                    if not fk.startswith("_") and fk != "ROLE" and fv is not None and type(fv) is not bool:
                        bad.append({"cls": cls_name, "wmsg": repr(w), "problem": "accepted with role feature %s.%s = %r" % (rname, fk, fv)})
            try:
                r.marshal()
            except Exception as e:
                bad.append({"cls": cls_name, "wmsg": repr(w), "problem": "accepted but marshal() raised %r" % (e,)})
seen, uniq = set(), []
for b in bad:
    k = (b["cls"], b["problem"].split("(")[0][:60])
    if k not in seen:
        seen.add(k); uniq.append(b)
print(json.dumps({"cases": n, "bad": uniq[:12], "n_bad": len(bad)}))
'''


_UNSER_HARNESS = r'''
import json
import txaio; txaio.use_asyncio()
from autobahn.wamp.serializer import Serializer
from autobahn.wamp.exception import ProtocolError, InvalidUriError

class Codec:
    NAME = "stub"; BINARY = True
    def __init__(self, result): self.result = result
    def unserialize(self, payload):
        if isinstance(self.result, BaseException): raise self.result
        return self.result

GOOD = [33, 1, 2]
cases = [("one valid message", [GOOD], True, 1), ("two valid messages", [GOOD, [35, 5]], True, 2), ("no message", [], True, 0),
         ("empty message", [[]], True, None), ("message is a dict", [{}], True, None), ("message is a str", ["x"], True, None),
         ("message is None", [None], True, None), ("type code is a str", [["33", 1, 2]], True, None),
         ("type code is a float", [[33.0, 1, 2]], True, None), ("type code is None", [[None]], True, None),
         ("type code is a list", [[[33], 1, 2]], True, None), ("unknown type code", [[9999, 1]], True, None),
         ("type code is a bool", [[True, 1, {}]], True, None), ("valid then empty", [GOOD, []], True, None),
         ("codec raises ValueError", ValueError("x"), True, None), ("codec raises KeyError", KeyError("x"), True, None),
         ("codec raises RecursionError", RecursionError("x"), True, None), ("codec raises TypeError", TypeError("x"), True, None),
         ("binary flag mismatch", [GOOD], False, None), ("binary flag not given", [GOOD], None, 1)]
bad = []
for name, result, is_binary, expect in cases:
    s = Serializer(Codec(result))
    try:
        msgs = s.unserialize(b"payload", is_binary)
    except (ProtocolError, InvalidUriError):
        if expect is not None:
            bad.append({"case": name, "problem": "rejected a valid envelope"})
        continue
    except BaseException as e:
        bad.append({"case": name, "problem": "escaped: %s" % type(e).__name__}); continue
    if expect is None:
        bad.append({"case": name, "problem": "accepted (%d messages)" % len(msgs)})
    elif len(msgs) != expect or not all(m.MESSAGE_TYPE == r[0] for m, r in zip(msgs, result)):
        bad.append({"case": name, "problem": "wrong messages %r" % (msgs,)})
print(json.dumps({"cases": len(cases), "bad": bad}))
'''

_MAP_HARNESS = r'''
import json
import txaio; txaio.use_asyncio()
from autobahn.wamp import message as M
from autobahn.wamp.serializer import Serializer
under_contract = set(CLASSES)
bad = []
for code, cls in Serializer.MESSAGE_TYPE_MAP.items():
    if type(code) is not int or cls.MESSAGE_TYPE != code:
        bad.append("code %r -> %s with MESSAGE_TYPE %r" % (code, cls.__name__, cls.MESSAGE_TYPE))
    if cls.__name__ not in under_contract or getattr(M, cls.__name__) is not cls:
        bad.append("%s.parse is not among the parse() functions decided by this check" % cls.__name__)
print(json.dumps({"n": len(Serializer.MESSAGE_TYPE_MAP), "bad": bad}))
'''.replace("CLASSES", repr(sorted(["Hello", "Welcome", "Abort", "Challenge", "Authenticate", "Goodbye", "Error", "Publish", "Published",
                                     "Subscribe", "Subscribed", "Unsubscribe", "Unsubscribed", "Event", "EventReceived", "Call",
                                     "Cancel", "Result", "Register", "Registered", "Unregister", "Unregistered", "Invocation",
                                     "Interrupt", "Yield"])))


_FUZZ_HARNESS = r'''
import json, random
import txaio; txaio.use_asyncio()
from autobahn.wamp import message as M
from autobahn.wamp.message import *
from autobahn.wamp.exception import ProtocolError, InvalidUriError
import re as _re
WS = [c for c in map(chr, range(0x30000)) if c.isspace()]
def comp_ok(c, strict):
    return bool(c) and (all(ch in "0123456789abcdefghijklmnopqrstuvwxyz_" for ch in c) if strict else
                        all(ch not in WS and ch not in ".#" for ch in c))
def uri_ok(s, strict, ale, ae):
    parts = s.split(".")
    if ale:
        return all(comp_ok(c, strict) for c in parts[:-1]) and (parts[-1] == "" or comp_ok(parts[-1], strict))
    if ae:
        return all(c == "" or comp_ok(c, strict) for c in parts)
    return all(comp_ok(c, strict) for c in parts)
def id_ok(v): return 0 <= v <= 2 ** 53
def str_keys(d): return all(type(k) is str for k in d)
def enc_algo_ok(x): return x in ("cryptobox", "mqtt", "xbr") or bool(_re.fullmatch(r"x_([a-z][0-9a-z_]+)?", x))
def enc_ser_ok(x): return x in ("json", "msgpack", "cbor", "ubjson", "flatbuffers") or bool(_re.fullmatch(r"x_([a-z][0-9a-z_]+)?", x))
globals().update({k: getattr(M, k) for k in dir(M) if isinstance(getattr(M, k), type)})     # classes outside __all__ too
UNITS = UNITS_JSON
rnd = random.Random(SEED)
SCALARS = [0, 1, 2, -1, 2 ** 53, 2 ** 53 + 1, True, False, None, 1.5, "a.b", "", "a b", "a..b", "a.", "com.x.y", "x_y", "x_", "cryptobox",
           "json", "exact", "prefix", "wildcard", "kill", "skip", "killnowait", "single", "first", "last", "roundrobin", "random",
           b"", b"x", "wamp.close.normal"]
FF = [{"session": 1, "authid": "a", "authrole": "r"}, {"session": 2, "authid": None, "authrole": "r"}, {"session": True, "authid": "a", "authrole": "r"},
      {"session": 1, "authrole": "r"}, {"session": 1, "authid": 3, "authrole": "r"}, {}, 1, "x", None, {"session": 1, "authid": "a", "authrole": None}]
def value(depth=0):
    r = rnd.random()
    if r < 0.55 or depth > 1:
        return rnd.choice(SCALARS)
    if r < 0.7:
        return [value(depth + 1) for _ in range(rnd.randrange(0, 3))]
    if r < 0.8:
        return [rnd.choice(FF) for _ in range(rnd.randrange(0, 3))]
    if r < 0.9:
        return {rnd.choice(["a", "b", 1, b"k", None]): value(depth + 1) for _ in range(rnd.randrange(0, 3))}
    return {}
PAY = [[], [[1, "x"]], [[1], {"k": 1}], [None, {"k": 1}], [[], {}], [b"payload"]]
BASES = {"Subscribe": [[1, {}, "a.b"]], "Published": [[1, 2]], "Subscribed": [[1, 2]], "Registered": [[1, 2]], "EventReceived": [[2]],
         "Abort": [[{}, "a.b"]], "Goodbye": [[{}, "a.b"]], "Challenge": [["m", {}]], "Authenticate": [["s", {}]], "Cancel": [[1, {}]],
         "Interrupt": [[1, {}]], "Unsubscribe": [[1, 2], [1, 2, {}]], "Unregister": [[1, 2], [1, 2, {}]],
         "Unsubscribed": [[1], [1, {}], [0, {}]], "Unregistered": [[1], [1, {}], [0, {}]], "Register": [[1, {}, "a.b"]],
         "Yield": [[1, {}] + p_ for p_ in PAY], "Result": [[1, {}] + p_ for p_ in PAY], "Error": [[48, 1, {}, "a.b"] + p_ for p_ in PAY],
         "Call": [[1, {}, "a.b"] + p_ for p_ in PAY], "Invocation": [[1, 2, {}] + p_ for p_ in PAY],
         "Event": [[1, 2, {}] + p_ for p_ in PAY], "Publish": [[1, {}, "a.b"] + p_ for p_ in PAY]}
POOL = [True, False, 0, 1, 7, -1, 2 ** 53, 2 ** 53 + 1, 1.0, "a.b", "com.x.y", "", "a b", "exact", "prefix", "wildcard", "kill", "skip",
        "killnowait", "single", "first", "last", "roundrobin", "random", "x_y", "x_", "cryptobox", "mqtt", "json", "cbor", None, {}, [],
        [1, 2], [2 ** 53 + 1], [-1], ["a", "b"], [1, "a"], [FF[0]], [FF[0], FF[1]], [FF[0], 1], [FF[3]], b"k", "key"]
import copy
bad, n, accepted, roundtrips = [], 0, 0, 0
RT = RT_JSON
for cls_name, u in UNITS.items():
    cls = getattr(M, cls_name)
    for _ in range(PER_CLASS):
        w = [cls.MESSAGE_TYPE] + copy.deepcopy(rnd.choice(BASES[cls_name]))
        for pos in range(1, len(w)):
            if isinstance(w[pos], dict) and not (pos == len(w) - 1 and len(w) > 5):
                for k in u["keys"]:
                    if rnd.random() < 0.2:
                        w[pos][k] = rnd.choice(POOL)
                if rnd.random() < 0.05:
                    w[pos][rnd.choice([1, b"k", "zz", None])] = rnd.choice(POOL)
        r = rnd.random()
        if r < 0.25:                                   # one position replaced by anything
            w[rnd.randrange(1, len(w))] = value()
        elif r < 0.32:                                 # wrong element count
            w = w[:rnd.randrange(1, len(w))] if rnd.random() < 0.5 else w + [value()]
        n += 1
        try:
            result = cls.parse(w)
        except (ProtocolError, InvalidUriError):
            continue
        except Exception as e:
            bad.append({"cls": cls_name, "wmsg": repr(w), "problem": "parse() raised %s (%s)" % (type(e).__name__, e)}); continue
        accepted += 1
        wmsg = w
        for cl in u["ensures"]:
            try:
                ok = bool(eval(cl))
            except Exception as e:
                ok = False
            if not ok:
                bad.append({"cls": cls_name, "wmsg": repr(w), "problem": "accepted, but the contract clause is false: " + cl[:160]}); break
        rt = RT.get(cls_name)
        if rt:
            # C03 cross-check: the accepted message, if it is one the round-trip contract speaks about, survives marshal / parse
            m = result
            try:
                valid = all(bool(eval(r)) for r in rt["requires"])
                # the unit's parameter types: args a list, kwargs a dict (PUBLISH also takes pre-serialized str / bytes args,
                # which the round-trip units do not speak about)
                valid = valid and (getattr(m, "args", None) is None or type(m.args) == list) and \
                    (getattr(m, "kwargs", None) is None or type(m.kwargs) == dict)
            except Exception:
                valid = False
            if valid:
                roundtrips += 1
                try:
                    result = cls.parse(m.marshal())
                    okc = [cl for cl in rt["ensures"] if not bool(eval(cl))]
                except Exception as e:
                    okc = ["raised %r" % (e,)]
                if okc:
                    bad.append({"cls": cls_name, "wmsg": repr(w), "problem": "round trip: " + okc[0][:160]})
seen, uniq = set(), []
for b in bad:
    k = (b["cls"], b["problem"][:60])
    if k not in seen:
        seen.add(k); uniq.append(b)
print(json.dumps({"cases": n, "accepted": accepted, "roundtrips": roundtrips, "bad": uniq[:10]}))
'''


def _fuzz_crosscheck(tier, seed, roundtrip=None, name="C08/bounded/parse-units-vs-real-code"):
    """every proved parse() unit against the real code on random untrusted structures: exceptions and, for accepted
    messages, every postcondition of the contract evaluated natively.  The proofs say this can never fail; if it does, the
    verifier (or a contract) is wrong.  Bounded, thorough tier only."""
    import json as _json
    import re as _re
    from pyvc import replaylib as Rp
    from pyvc.contracts import Registry
    reg = Registry()
    build(reg)
    units = {}
    for c in reg.units:
        m = _re.search(r":(\w+)\.parse$", c.name)
        if not m:
            continue
        cls = m.group(1)
        alias = reg.type_aliases.get("W" + cls, "")
        keys = _re.findall(r"(?:udict:|,)([\w-]+)=", alias)
        ens = []
        for e in c.ensures:
            try:
                ens.append(Rp.native_clause(e))
            except Exception:
                pass
        import autobahn.wamp.message  # noqa  (lengths are read from the real parse() source below)
        units[cls] = {"keys": keys, "ensures": ens, "lengths": [2, 3, 4, 5, 6, 7]}
    code = _FUZZ_HARNESS.replace("UNITS_JSON", "json.loads(%r)" % _json.dumps(units)).replace("SEED", str(1000 + seed)) \
        .replace("PER_CLASS", "4000").replace("RT_JSON", "json.loads(%r)" % _json.dumps(roundtrip or {}))
    if roundtrip:
        return Rp.native_crosscheck(name, code, "the messages accepted out of 4000 random structures per class that satisfy the "
                                    "round-trip unit's preconditions: parse(marshal(m)) evaluated against the unit's postconditions", timeout=1200)
    return Rp.native_crosscheck(name, code,
                                "4000 random untrusted structures per class (23 classes): only ProtocolError / InvalidUriError may "
                                "escape, and every postcondition of the contract holds natively on every accepted message",
                                timeout=1200)


def extra_checks(tier, seed):
    """Hello.parse / Welcome.parse build role objects from untrusted feature dicts (`role_cls(**features)`) and collect custom
    attributes by iterating the details: outside what the verifier models.  A *bounded* stand-in on the real code: every
    single-position / single-option / single-role replacement, by 29 values covering every JSON / CBOR type and the id
    boundaries, of 5 base messages.  Labelled bounded, never counted as proved."""
    import time
    from pyvc import replaylib as Rp
    t0 = time.time()
    pairs = tier == "thorough"
    out = Rp.run_py("PAIRS = %r\n" % pairs + _BOUNDED_HARNESS, timeout=1800)
    ok = isinstance(out, dict) and out.get("cases", 0) > 1000 and out.get("bad") == []
    crashed = not isinstance(out, dict) or "cases" not in out
    res = []
    # the dispatch table of Serializer.unserialize, as assumed by the unit above: finite, checked exhaustively
    t1 = time.time()
    tbl = Rp.run_py(_MAP_HARNESS, timeout=60)
    good = isinstance(tbl, dict) and tbl.get("bad") == [] and tbl.get("n", 0) >= 25
    res.append({"name": "C08/lemma/message-type-map-registers-each-class-under-its-own-code", "kind": "lemma-finite",
                "status": "proved" if good else "refuted", "backend": "enumeration(%s entries, exhaustive)" % (tbl.get("n") if isinstance(tbl, dict) else "?"),
                "time": round(time.time() - t1, 2), "info": {"detail": str(tbl)[:400]},
                "replay": {"reproduced": not good, "observed": tbl}})
    if tier == "thorough":
        res.append(_fuzz_crosscheck(tier, seed))
        res.append(Rp.native_crosscheck("C08/bounded/unserialize-envelope", _UNSER_HARNESS,
                                        "20 codec results / exceptions / binary flags on the real Serializer with a stub codec"))
    if crashed:
        return res + [{"name": "C08/bounded/hello-welcome-parse", "kind": "bounded", "status": "unknown", "bounded": True,
                 "backend": "enumeration on the real code", "time": round(time.time() - t0, 2), "reason": "harness error: %s" % str(out)[:300],
                 "bound": "single replacements", "cases": 0}]
    by_cls = {"Hello": [], "Welcome": []}
    for b in out.get("bad", []):
        by_cls[b["cls"]].append(b)
    for cls, bads in by_cls.items():
        res.append({"name": "C08/bounded/%s.parse" % cls, "kind": "bounded", "status": "refuted" if bads else "proved",
                    "bounded": True, "backend": "enumeration on the real code", "time": round(time.time() - t0, 2),
                    "bound": "every single-position / single-option / single-role replacement by 29 values of every JSON / CBOR "
                             "type, of the base messages" + (" and every pair of option replacements" if pairs else
                                                             " (pairs of replacements: thorough tier only)"),
                    "cases": out.get("cases"), "info": {"detail": str(bads)[:600]},
                    "replay": {"reproduced": bool(bads), "cases": bads[:4],
                               "detail": "inputs found by the bounded enumeration, run on the real parse()"}})
    return res


# ------------------------------------------------------------------------------------------ replay on the real code
_HARNESS = r'''
import json
from autobahn.wamp.message import check_or_raise_id, check_or_raise_uri, check_or_raise_realm_name
from autobahn.wamp.exception import ProtocolError, InvalidUriError
case = CASE
WS = [c for c in map(chr, range(0x30000)) if c.isspace()]

def comp_ok(c, strict):
    if not c:
        return False
    if strict:
        return all(ch in "0123456789abcdefghijklmnopqrstuvwxyz_" for ch in c)
    return all(ch not in WS and ch not in ".#" for ch in c)

def uri_ok(s, strict, ale, ae):
    parts = s.split(".")
    if ale:
        return all(comp_ok(c, strict) for c in parts[:-1]) and (parts[-1] == "" or comp_ok(parts[-1], strict))
    if ae:
        return all(c == "" or comp_ok(c, strict) for c in parts)
    return all(comp_ok(c, strict) for c in parts)

def realm_ok(s, eth):
    A = "ABCDEFGHIJKLMNOPQRSTUVWXYZabcdefghijklmnopqrstuvwxyz"
    T = A + "0123456789_-@."
    if 3 <= len(s) <= 255 and s[0] in A and all(ch in T for ch in s[1:]):
        return True
    return bool(eth and len(s) == 42 and s[:2] == "0x" and all(ch in "0123456789abcdefABCDEF" for ch in s[2:]))

v = case["value"]
fn = case["fn"]
if fn == "id":
    want = type(v) is int and 0 <= v <= 2 ** 53
    call = lambda: check_or_raise_id(v, "m"); allowed = ProtocolError
elif fn == "uri":
    want = (v is None and case["allow_none"]) or (type(v) is str and uri_ok(v, case["strict"], case["allow_last_empty"], case["allow_empty_components"]))
    call = lambda: check_or_raise_uri(v, "m", case["strict"], case["allow_empty_components"], case["allow_last_empty"], case["allow_none"]); allowed = InvalidUriError
else:
    want = type(v) is str and realm_ok(v, case["allow_eth"])
    call = lambda: check_or_raise_realm_name(v, "m", case["allow_eth"]); allowed = InvalidUriError
try:
    r = call(); got = "accepted" if r is v or r == v else "returned-other"
except allowed:
    got = "rejected"
except Exception as e:
    got = "crashed:" + type(e).__name__
print(json.dumps({"got": got, "want": "accepted" if want else "rejected"}))
'''


_PARSE_HARNESS = r'''
import json
import txaio; txaio.use_asyncio()
from autobahn.wamp import message as M
from autobahn.wamp.message import *
from autobahn.wamp.exception import ProtocolError, InvalidUriError
globals().update({k: getattr(M, k) for k in dir(M) if isinstance(getattr(M, k), type)})
case = CASE
WS = [c for c in map(chr, range(0x30000)) if c.isspace()]

def comp_ok(c, strict):
    if not c:
        return False
    if strict:
        return all(ch in "0123456789abcdefghijklmnopqrstuvwxyz_" for ch in c)
    return all(ch not in WS and ch not in ".#" for ch in c)

def uri_ok(s, strict, ale, ae):
    parts = s.split(".")
    if ale:
        return all(comp_ok(c, strict) for c in parts[:-1]) and (parts[-1] == "" or comp_ok(parts[-1], strict))
    if ae:
        return all(c == "" or comp_ok(c, strict) for c in parts)
    return all(comp_ok(c, strict) for c in parts)

def id_ok(v):
    return 0 <= v <= 2 ** 53

def str_keys(d):
    return all(type(k) is str for k in d)

import re as _re
def enc_algo_ok(x):
    return x in ("cryptobox", "mqtt", "xbr") or bool(_re.fullmatch(r"x_([a-z][0-9a-z_]+)?", x))

def enc_ser_ok(x):
    return x in ("json", "msgpack", "cbor", "ubjson", "flatbuffers") or bool(_re.fullmatch(r"x_([a-z][0-9a-z_]+)?", x))

def build(x):
    if isinstance(x, list):
        return [build(y) for y in x]
    if isinstance(x, dict) and "bytes" in x:
        return bytes(int(b) & 255 for b in x["bytes"] if not isinstance(b, str))
    if isinstance(x, dict) and "dict" in x:
        d = {k: build(v) for k, v in x["dict"].items()}
        if "other_key" in x:
            k = build(x["other_key"])
            d[k if k.__hash__ else repr(k)] = 0
        return d
    if x == "<opaque>":
        return 0
    return x

wmsg = build(case["wmsg"])
cls = getattr(M, case["cls"])
out = {"wmsg": repr(wmsg)}
if not (type(wmsg) is list and len(wmsg) > 0 and type(wmsg[0]) is int and wmsg[0] == cls.MESSAGE_TYPE):
    # not an input of this unit (Serializer.unserialize dispatches on the type code before parse() is called)
    print(json.dumps(dict(out, outcome="skipped: the candidate does not satisfy the unit's precondition"))); raise SystemExit
try:
    result = cls.parse(wmsg)
except (ProtocolError, InvalidUriError) as e:
    out["outcome"] = "rejected: %s" % type(e).__name__
except Exception as e:
    out["outcome"] = "escaped: %s" % type(e).__name__; out["bad"] = "parse() raised %s (%s)" % (type(e).__name__, e)
else:
    out["outcome"] = "accepted"
    if case.get("clause"):
        try:
            ok = bool(eval(case["clause"]))
        except Exception as e:
            ok = False; out["clause_error"] = repr(e)
        if not ok:
            out["bad"] = "accepted, but the contract clause is false on the returned message"
print(json.dumps(out))
'''


def _replay_parse(o, unit):
    from pyvc import replaylib as Rp
    import re as _re
    cls = _re.search(r":(\w+)\.parse", unit).group(1)
    inp = o.get("inputs") or {}
    clause = None
    if o.get("kind") == "ensures" or "/ensures" in (o.get("name") or ""):
        srcs = [(o.get("info") or {}).get("clause")]
    elif o.get("kind") == "raises" or "/raises" in (o.get("name") or ""):
        srcs = []
    else:
        # an internal obligation (loop invariant, ...) failed: what is observable is whether the message that comes back
        # satisfies the unit's postconditions -- all of them are evaluated natively
        from pyvc.contracts import Registry
        reg = Registry()
        build(reg)
        srcs = [e for c in reg.units if c.name == unit for e in c.ensures]
    parts = []
    for src in srcs:
        try:
            if src:
                parts.append("(" + Rp.native_clause(src) + ")")
        except Exception:
            pass
    clause = " and ".join(parts) or None
    cands = [inp.get("wmsg")] + [c.get("wmsg") for c in (o.get("candidate_inputs") or []) if isinstance(c, dict)]
    last = None
    for w in cands:
        if not isinstance(w, list):
            continue
        out = Rp.run_py(_PARSE_HARNESS.replace("CASE", repr({"cls": cls, "wmsg": w, "clause": clause})))
        last = out
        if isinstance(out, dict) and out.get("bad"):
            return {"reproduced": True, "case": {"cls": cls, "wmsg": out.get("wmsg")}, "observed": out,
                    "detail": "the counterexample structure handed to the real %s.parse(); a violation is an exception other than "
                              "ProtocolError / InvalidUriError, or an accepted message on which the failed contract clause, "
                              "evaluated natively on the real objects, is false" % cls}
    return {"reproduced": False, "observed": last, "detail": "the real parse() behaved as the property demands on this input"}


def _val(x):
    if isinstance(x, dict) and "bytes" in x:
        return bytes(int(b) & 255 for b in x["bytes"] if not isinstance(b, str))
    return x


def replay(o):
    from pyvc import replaylib as Rp
    inp = o.get("inputs") or {}
    unit = o.get("unit") or o.get("name", "")
    fn = "id" if "check_or_raise_id" in unit else ("uri" if "check_or_raise_uri" in unit else
                                                    ("realm" if "realm_name" in unit else None))
    if fn is None and "is_valid_enc" in unit:
        from pyvc import replaylib as Rp
        name = "is_valid_enc_algo" if "enc_algo" in unit else "is_valid_enc_serializer"
        v = inp.get("enc_algo", inp.get("enc_serializer"))
        code = _PARSE_HARNESS.split("wmsg = build(case")[0] + '''
v = build(case["value"])
ref = enc_algo_ok if case["fn"] == "is_valid_enc_algo" else enc_ser_ok
want = type(v) is str and ref(v)
try:
    got = bool(getattr(M, case["fn"])(v))
except Exception as e:
    got = "crashed:" + type(e).__name__
print(json.dumps({"got": got, "want": want, "value": repr(v)}))
'''
        out = Rp.run_py(code.replace("CASE", repr({"fn": name, "value": v})))
        bad = isinstance(out, dict) and "got" in out and out.get("got") != out.get("want")
        return {"reproduced": bool(bad), "observed": out, "detail": "the real %s called on the counterexample value, compared "
                                                                     "with a reference written from the WAMP text" % name}
    if fn is None and "Serializer.unserialize" in unit:
        from pyvc import replaylib as Rp
        out = Rp.run_py(_UNSER_HARNESS, timeout=120)
        bad = out.get("bad") if isinstance(out, dict) else None
        return {"reproduced": bool(bad), "cases": (bad or [])[:4], "observed": None if bad else out,
                "detail": "envelope boundary cases (codec results of every shape, codec exceptions, binary-flag mismatch) on the "
                          "real Serializer with a stub codec; finds real failing inputs only, proves nothing"}
    if fn is None and ".parse" in unit:
        return _replay_parse(o, unit)
    if fn is None and ("check_or_raise_extra" in unit or "_validate_kwargs" in unit):
        from pyvc import replaylib as Rp
        name = "check_or_raise_extra" if "check_or_raise_extra" in unit else "_validate_kwargs"
        v = inp.get("value", inp.get("kwargs"))
        code = _PARSE_HARNESS.split("wmsg = build(case")[0] + '''
v = build(case["value"])
want = (type(v) is dict and str_keys(v)) or (v is None and case["fn"] == "_validate_kwargs")
try:
    r = getattr(M, case["fn"])(v, "m"); got = "accepted" if r is v else "returned-other"
except ProtocolError:
    got = "rejected"
except Exception as e:
    got = "crashed:" + type(e).__name__
print(json.dumps({"got": got, "want": "accepted" if want else "rejected", "value": repr(v)}))
'''
        out = Rp.run_py(code.replace("CASE", repr({"fn": name, "value": v})))
        bad = isinstance(out, dict) and "got" in out and out.get("got") != out.get("want")
        return {"reproduced": bool(bad), "observed": out, "detail": "the real %s called on the counterexample value" % name}
    if fn is None:
        return {"reproduced": False, "detail": "no replay harness for this unit"}
    case = {"fn": fn, "value": _val(inp.get("value"))}
    for k in ("strict", "allow_empty_components", "allow_last_empty", "allow_none", "allow_eth"):
        case[k] = bool(inp.get(k))
    if isinstance(case["value"], bytes):
        code = _HARNESS.replace("CASE", repr(case))
    else:
        code = _HARNESS.replace("CASE", repr(case))
    out = Rp.run_py(code)
    bad = isinstance(out, dict) and out.get("got") != out.get("want")
    return {"reproduced": bool(bad), "case": {k: (list(v) if isinstance(v, bytes) else v) for k, v in case.items()},
            "observed": out, "detail": "the real validator called on the counterexample; the verdict is compared with a "
                                       "hand-written (regex-free) reference of the WAMP grammar"}
