"""C08 — Untrusted WAMP input is either a valid message or a protocol error.

Field validators (ids, URIs, realm names) are proved equal to spec languages built here from the WAMP specification
text; untrusted values are unions over the Python types a deserializer can produce.
"""
import z3

from pyvc.values import *  # noqa
from pyvc import regex as R

ASSUMPTIONS = [
    "a deserialized scalar is one of: int, bool, str, None, float, bytes (lists / dicts are covered where a unit says so)",
    "Python's `re` semantics are taken from CPython's own pattern parser (pyvc.regex): `$` also matches before a trailing "
    "newline, \\d / \\s are the Unicode classes; characters are limited to z3's range (<= U+2FFFF)",
    "spec whitespace = the characters with str.isspace() (Unicode White_Space plus the ASCII separators FS GS RS US)",
]
LEVEL = "other"     # the validators are proved; the per-class parse() functions are not under contract yet
NOT_COVERED = ["the 25 per-class parse() functions", "Serializer.unserialize envelope checks and exception wrapping",
               "check_or_raise_extra / _validate_kwargs (iteration over dynamically typed dict keys)"]
MSG = "autobahn.wamp.message"
UNTRUSTED = "int|bool|str|none|real|bytes"
RS = R.RS


def _cls(*parts):
    return R._union(list(parts))


def _lit(s):
    return z3.Re(z3.StringVal(s))


def uri_lang(strict, last_empty, empty):
    """WAMP URI grammar from the specification: components separated by '.'; strict components are [0-9a-z_]+, loose
    components are non-empty runs without whitespace, '.' and '#'; prefix matching allows an empty last component,
    wildcard matching allows empty components"""
    if strict:
        ch = _cls(z3.Range("0", "9"), z3.Range("a", "z"), _lit("_"))
    else:
        ws = R._category(R.C.CATEGORY_SPACE)
        ch = R._not_char(_cls(ws, _lit("."), _lit("#")))
    comp = z3.Plus(ch)
    dot = _lit(".")
    if last_empty:
        return z3.Concat(z3.Star(z3.Concat(comp, dot)), z3.Option(comp))
    if empty:
        return z3.Concat(z3.Star(z3.Union(z3.Concat(comp, dot), dot)), z3.Option(comp))
    return z3.Concat(z3.Star(z3.Concat(comp, dot)), comp)


def sym_uri_ok(ex, state, s, strict, ale, ae):
    def lang(st):
        return z3.If(ale.t, z3.InRe(s.t, uri_lang(st, True, False)),
                     z3.If(ae.t, z3.InRe(s.t, uri_lang(st, False, True)), z3.InRe(s.t, uri_lang(st, False, False))))
    return VBool(z3.If(strict.t, lang(True), lang(False)))


def realm_lang(eth):
    alnum = _cls(z3.Range("A", "Z"), z3.Range("a", "z"))
    tail = _cls(z3.Range("A", "Z"), z3.Range("a", "z"), z3.Range("0", "9"), _lit("_"), _lit("-"), _lit("@"), _lit("."))
    name = z3.Concat(alnum, z3.Loop(tail, 2, 254))
    if not eth:
        return name
    hexd = _cls(z3.Range("A", "F"), z3.Range("a", "f"), z3.Range("0", "9"))
    return z3.Union(name, z3.Concat(_lit("0x"), z3.Loop(hexd, 40, 40)))


def build(reg):
    common = dict(props=["C08"], spec_module="specs.wampuri")
    reg.native_spec("uri_ok", sym_uri_ok)
    reg.native_spec("realm_ok", lambda ex, state, s, eth: VBool(z3.If(eth.t, z3.InRe(s.t, realm_lang(True)),
                                                                      z3.InRe(s.t, realm_lang(False)))))
    IS_ID = "isinstance(value, int) and not isinstance(value, bool) and id_ok(value)"
    reg.contract(MSG + ":check_or_raise_id", params={"value": UNTRUSTED, "message": "str"}, returns=UNTRUSTED,
                 ensures=[IS_ID, "result is value"], raises={"ProtocolError": "not (%s)" % IS_ID}, **common)
    IS_URI = ("(value is None and allow_none) or (isinstance(value, str) and "
              "uri_ok(value, strict, allow_last_empty, allow_empty_components))")
    reg.contract(MSG + ":check_or_raise_uri",
                 params={"value": UNTRUSTED, "message": "str", "strict": "bool", "allow_empty_components": "bool",
                         "allow_last_empty": "bool", "allow_none": "bool"}, returns=UNTRUSTED,
                 ensures=[IS_URI, "result is value"], raises={"InvalidUriError": "not (%s)" % IS_URI}, **common)
    IS_REALM = "isinstance(value, str) and realm_ok(value, allow_eth)"
    reg.contract(MSG + ":check_or_raise_realm_name", params={"value": UNTRUSTED, "message": "str", "allow_eth": "bool"},
                 returns=UNTRUSTED, ensures=[IS_REALM, "result is value"], raises={"InvalidUriError": "not (%s)" % IS_REALM},
                 **common)


def extra_checks(tier, seed):
    return []


# ------------------------------------------------------------------------------------------ replay on the real code
_HARNESS = r'''
import json
from autobahn.wamp.message import check_or_raise_id, check_or_raise_uri, check_or_raise_realm_name
from autobahn.wamp.exception import ProtocolError, InvalidUriError
case = CASE
WS = [c for c in map(chr, range(0x30000)) if c.isspace()]

def comp_ok(c, strict):
    if not c:
        return False
    if strict:
        return all(ch in "0123456789abcdefghijklmnopqrstuvwxyz_" for ch in c)
    return all(ch not in WS and ch not in ".#" for ch in c)

def uri_ok(s, strict, ale, ae):
    parts = s.split(".")
    if ale:
        return all(comp_ok(c, strict) for c in parts[:-1]) and (parts[-1] == "" or comp_ok(parts[-1], strict))
    if ae:
        return all(c == "" or comp_ok(c, strict) for c in parts)
    return all(comp_ok(c, strict) for c in parts)

def realm_ok(s, eth):
    A = "ABCDEFGHIJKLMNOPQRSTUVWXYZabcdefghijklmnopqrstuvwxyz"
    T = A + "0123456789_-@."
    if 3 <= len(s) <= 255 and s[0] in A and all(ch in T for ch in s[1:]):
        return True
    return bool(eth and len(s) == 42 and s[:2] == "0x" and all(ch in "0123456789abcdefABCDEF" for ch in s[2:]))

v = case["value"]
fn = case["fn"]
if fn == "id":
    want = type(v) is int and 0 <= v <= 2 ** 53
    call = lambda: check_or_raise_id(v, "m"); allowed = ProtocolError
elif fn == "uri":
    want = (v is None and case["allow_none"]) or (type(v) is str and uri_ok(v, case["strict"], case["allow_last_empty"], case["allow_empty_components"]))
    call = lambda: check_or_raise_uri(v, "m", case["strict"], case["allow_empty_components"], case["allow_last_empty"], case["allow_none"]); allowed = InvalidUriError
else:
    want = type(v) is str and realm_ok(v, case["allow_eth"])
    call = lambda: check_or_raise_realm_name(v, "m", case["allow_eth"]); allowed = InvalidUriError
try:
    r = call(); got = "accepted" if r is v or r == v else "returned-other"
except allowed:
    got = "rejected"
except Exception as e:
    got = "crashed:" + type(e).__name__
print(json.dumps({"got": got, "want": "accepted" if want else "rejected"}))
'''


def _val(x):
    if isinstance(x, dict) and "bytes" in x:
        return bytes(int(b) & 255 for b in x["bytes"] if not isinstance(b, str))
    return x


def replay(o):
    from pyvc import replaylib as Rp
    inp = o.get("inputs") or {}
    unit = o.get("unit") or o.get("name", "")
    fn = "id" if "check_or_raise_id" in unit else ("uri" if "check_or_raise_uri" in unit else
                                                    ("realm" if "realm_name" in unit else None))
    if fn is None:
        return {"reproduced": False, "detail": "no replay harness for this unit"}
    case = {"fn": fn, "value": _val(inp.get("value"))}
    for k in ("strict", "allow_empty_components", "allow_last_empty", "allow_none", "allow_eth"):
        case[k] = bool(inp.get(k))
    if isinstance(case["value"], bytes):
        code = _HARNESS.replace("CASE", repr(case))
    else:
        code = _HARNESS.replace("CASE", repr(case))
    out = Rp.run_py(code)
    bad = isinstance(out, dict) and out.get("got") != out.get("want")
    return {"reproduced": bool(bad), "case": {k: (list(v) if isinstance(v, bytes) else v) for k, v in case.items()},
            "observed": out, "detail": "the real validator called on the counterexample; the verdict is compared with a "
                                       "hand-written (regex-free) reference of the WAMP grammar"}
