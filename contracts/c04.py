"""C04 — Each WAMP request completes exactly once with its own reply."""
from . import wamp_common as W
from .wamp_common import SESS, PR

ASSUMPTIONS = list(W.ASSUMPTIONS)
MSG = "autobahn.wamp.message"

TABLES = ["_publish_reqs", "_subscribe_reqs", "_unsubscribe_reqs", "_register_reqs", "_unregister_reqs", "_call_reqs"]


def build(reg):
    common = dict(props=["C04"], spec_module="specs.wamp")
    reg.shape("IdGenerator", cls="autobahn.util:IdGenerator", fields={"_next": "int"})
    # request ids: sequential from 1, always within 1..2^53
    reg.contract("autobahn.util:IdGenerator.next", params={"self": "obj:IdGenerator"}, returns="int",
                 requires=["0 <= self._next <= 2**53"], modifies=["self._next"],
                 ensures=["1 <= result <= 2**53", "result == self._next",
                          "result == old(self._next) + 1 or (old(self._next) == 2**53 and result == 1)"], **common)
    reg.contract("autobahn.util:IdGenerator.__init__", params={"self": "obj:IdGenerator"}, modifies=["self._next"],
                 ensures=["self._next == 0"], **common)
    W.build_shapes(reg)

    def reply(mshape, fields, table, rec, extra_mod, clauses, name=None, extra_req=(), extra_raise="", loop=None):
        """one reply arm of ApplicationSession.onMessage: msg is an instance of exactly that message class"""
        reg.shape(mshape, cls=MSG + ":" + mshape, fields=fields)
        T = "self." + table
        reg.contract(
            SESS + ".onMessage", name=SESS + ".onMessage<%s>" % (name or mshape),
            params={"self": "obj:Session", "msg": "obj:" + mshape},
            requires=["self._session_id is not None",
                      # records in the table are allocated and keyed by their own request id
                      "implies(msg.request in %s, allocated(%s[msg.request].on_reply))" % (T, T)] + list(extra_req),
            modifies=[T, "Fut.done", "Fut.ok", "Fut.res_id", "ghost.n_completions"] + extra_mod,
            ensures=[
                # the record that bears this request id (and type) is consumed ...
                "msg.request not in %s" % T,
                # ... every other pending request of this kind is untouched (whole-view frame; the other five tables and
                #     all other records are covered by the frame obligations of this unit)
                "forall(k, 0, 2**53 + 1, implies(k != msg.request, (k in %s) == (k in old(%s))))" % (T, T),
                "forall(k, 0, 2**53 + 1, implies(k != msg.request and k in %s, %s[k] is old(%s[k])))" % (T, T, T),
                # ... and only its future is completed, exactly once
                "forall(f, 0, 2**62, implies(f != old(%s[msg.request].on_reply.addr) and allocated_before(f), "
                "fut_done(f) == old(fut_done(f))))" % T,
                "ghost.n_completions <= old(ghost.n_completions) + 1",
                "ghost.n_sent == old(ghost.n_sent)",
            ] + clauses,
            # a reply that matches no pending request is a protocol violation, not matched to anything
            raises={"ProtocolError": "msg.request not in %s%s" % (T, extra_raise)},
            raises_ensures={"ProtocolError": [
                "ghost.n_completions == old(ghost.n_completions)",
                # a protocol violation consumes nothing: no pending request silently loses its reply
                "forall(k, 0, 2**53 + 1, (k in %s) == old(k in %s))" % (T, T)]},
            loops=(loop or {}), **common)

    FUT = "old(self.%s[msg.request].on_reply.addr)"
    reply("Published", {"request": "int", "publication": "int"}, "_publish_reqs", "PublishRequest", ["Publication.*"],
          ["implies(not old(fut_done(self._publish_reqs[msg.request].on_reply.addr)), fut_done(%s) and fut_ok(%s))"
           % ((FUT % "_publish_reqs",) * 2)])
    reply("Registered", {"request": "int", "registration": "int"}, "_register_reqs", "RegisterRequest",
          ["self._registrations", "Registration.*"], extra_raise=" or msg.registration in self._registrations", clauses=
          ["implies(not old(fut_done(self._register_reqs[msg.request].on_reply.addr)), fut_done(%s) and fut_ok(%s) and "
           "msg.registration in self._registrations and self._registrations[msg.registration].id == msg.registration)"
           % ((FUT % "_register_reqs",) * 2)])


    reply("Unregistered", {"request": "int", "registration": "int"}, "_unregister_reqs", "UnregisterRequest",
          ["self._registrations", "Registration.active"], extra_req=["msg.request != 0"], clauses=[
              "implies(not old(fut_done(self._unregister_reqs[msg.request].on_reply.addr)), fut_done(%s) and fut_ok(%s) and "
              "old(self._unregister_reqs[msg.request].registration_id) not in self._registrations)"
              % ((FUT % "_unregister_reqs",) * 2)])
    reply("Subscribed", {"request": "int", "subscription": "int"}, "_subscribe_reqs", "SubscribeRequest",
          ["self._subscriptions", "Subscription.*"], clauses=[
              "implies(not old(fut_done(self._subscribe_reqs[msg.request].on_reply.addr)), fut_done(%s) and fut_ok(%s) and "
              "msg.subscription in self._subscriptions and len(self._subscriptions[msg.subscription]) == "
              "(old(len(self._subscriptions[msg.subscription])) if old(msg.subscription in self._subscriptions) else 0) + 1)"
              % ((FUT % "_subscribe_reqs",) * 2)])
    reply("Unsubscribed", {"request": "int", "subscription": "opt:int", "reason": "opt:str"}, "_unsubscribe_reqs",
          "UnsubscribeRequest", ["self._subscriptions", "Subscription.active"], clauses=[
              "implies(not old(fut_done(self._unsubscribe_reqs[msg.request].on_reply.addr)), fut_done(%s) and fut_ok(%s) and "
              "old(self._unsubscribe_reqs[msg.request].subscription_id) not in self._subscriptions)"
              % ((FUT % "_unsubscribe_reqs",) * 2)],
          loop={"iter:self._subscriptions[request.subscription_id]": {"invariant": ["0 <= _i", "request.subscription_id in self._subscriptions",
                              "forall(k, 0, 2**53 + 1, (k in self._subscriptions) == old(k in self._subscriptions))"],
                "modifies": ["Subscription.active"], "pure_calls": True, "index": "_i", "vars": {"subscription": "sym:Subscription"}}})
    # RESULT: terminal results complete the call; progressive results reach only the progress handler of their own call
    from pyvc import models
    from pyvc.values import VOpaque, fresh_name
    models.CLASS_MODELS["CallResult"] = lambda ex, state, args, kwargs: VOpaque(fresh_name("CallResult"))
    reg.external("txaio.as_future", lambda ex, state, args, kwargs, sv: _as_future(ex, state, args))
    reg.external("txaio.add_callbacks", lambda ex, state, args, kwargs, sv: __import__("pyvc.values", fromlist=["VNone"]).VNone)
    reg.shape("Result", cls=MSG + ":Result", fields={
        "request": "int", "args": "opt:list:int", "kwargs": "any", "progress": "bool", "enc_algo": "none", "payload": "none",
        "enc_key": "none", "enc_serializer": "none", "callee": "any", "callee_authid": "any", "callee_authrole": "any",
        "forward_for": "any"})
    T = "self._call_reqs"
    reg.contract(
        SESS + ".onMessage", name=SESS + ".onMessage<Result>", params={"self": "obj:Session", "msg": "obj:Result"},
        requires=["self._session_id is not None",
                  "implies(msg.request in %s, allocated(%s[msg.request].on_reply) and "
                  "%s[msg.request].request_id == msg.request)" % (T, T, T)],     # records are keyed by their own id
        modifies=[T, "Fut.done", "Fut.ok", "Fut.res_id", "ghost.n_completions", "ghost.n_progress", "ghost.last_progress_req"],
        ensures=[
            # terminal result: the call record is consumed and only its future completed
            "implies(not msg.progress, msg.request not in %s and implies(not old(fut_done(%s[msg.request].on_reply.addr)), "
            "fut_done(old(%s[msg.request].on_reply.addr))))" % (T, T, T),
            # progressive result: the call stays pending, nothing is completed, at most the progress handler of *this*
            # call is invoked
            "implies(msg.progress, msg.request in %s and %s[msg.request] is old(%s[msg.request]) and "
            "ghost.n_completions == old(ghost.n_completions) and ghost.n_progress <= old(ghost.n_progress) + 1 and "
            "implies(ghost.n_progress == old(ghost.n_progress) + 1, ghost.last_progress_req == msg.request))" % (T, T, T),
            "forall(k, 0, 2**53 + 1, implies(k != msg.request, (k in %s) == old(k in %s)))" % (T, T),
            "forall(k, 0, 2**53 + 1, implies(k != msg.request and k in %s, %s[k] is old(%s[k])))" % (T, T, T),
            "forall(f, 0, 2**62, implies(f != old(%s[msg.request].on_reply.addr) and allocated_before(f), "
            "fut_done(f) == old(fut_done(f))))" % T,
            "ghost.n_completions <= old(ghost.n_completions) + 1", "ghost.n_sent == old(ghost.n_sent)"],
        raises={"ProtocolError": "msg.request not in %s" % T},
        raises_ensures={"ProtocolError": ["ghost.n_completions == old(ghost.n_completions)",
                                          "forall(k, 0, 2**53 + 1, (k in %s) == old(k in %s))" % (T, T)]}, **common)

    # ERROR replies are keyed by (request type, request id): six tables, one arm
    reg.contract(PR + ":BaseSession._exception_from_message", params={"self": "obj:Session", "msg": "any"}, returns="any",
                 verify=False, props=["C18"], spec_module="specs.wamp")
    reg.shape("Error", cls=MSG + ":Error", fields={"request_type": "int", "request": "int", "error": "str", "args": "any",
                                                   "kwargs": "any", "enc_algo": "any", "payload": "any"})
    TYPES = {"_call_reqs": 48, "_publish_reqs": 16, "_subscribe_reqs": 32, "_unsubscribe_reqs": 34,
             "_register_reqs": 64, "_unregister_reqs": 66}
    pending = " or ".join("(msg.request_type == %d and msg.request in self.%s)" % (c, t) for t, c in TYPES.items())
    clauses = []
    for t, c in TYPES.items():
        T = "self." + t
        clauses += [
            # matched by type *and* id: the record of exactly that table is consumed and its future rejected
            "implies(msg.request_type == %d, msg.request not in %s and "
            "implies(not old(fut_done(%s[msg.request].on_reply.addr)), fut_done(old(%s[msg.request].on_reply.addr)) and "
            "not fut_ok(old(%s[msg.request].on_reply.addr))))" % (c, T, T, T, T),
            # a table of another request type is never touched, even if it holds the same request id
            "implies(msg.request_type != %d, forall(k, 0, 2**53 + 1, (k in %s) == old(k in %s)))" % (c, T, T),
            "forall(k, 0, 2**53 + 1, implies(k != msg.request, (k in %s) == old(k in %s)))" % (T, T),
        ]
    reg.contract(
        SESS + ".onMessage", name=SESS + ".onMessage<Error>", params={"self": "obj:Session", "msg": "obj:Error"},
        requires=["self._session_id is not None"],
        modifies=["self." + t for t in TYPES] + ["Fut.done", "Fut.ok", "Fut.res_id", "ghost.n_completions"],
        ensures=clauses + ["ghost.n_completions <= old(ghost.n_completions) + 1", "ghost.n_sent == old(ghost.n_sent)"],
        raises={"ProtocolError": "not (%s)" % pending},
        raises_ensures={"ProtocolError": ["ghost.n_completions == old(ghost.n_completions)"]}, **common)
    from . import c04_requests
    W.install_message_models(reg)
    c04_requests.build_requests(reg, common)


def _as_future(ex, state, args):
    """txaio.as_future(fn, ...): calls fn now; here only the progress handler of a call request can be the target:
    count the invocation and remember whose handler it was"""
    from pyvc.values import VInt, VOpaque, fresh_name, simp
    g = state.heap[state.ghost.oid]
    g.fields["n_progress"] = VInt(simp(g.fields["n_progress"].t + 1))
    fn = args[0]
    tag = getattr(fn, "tag", "")
    # the opaque value read from call_request.options.on_progress carries the request it was read for
    cur = state.frame.locals.get("call_request")
    if cur is not None:
        g.fields["last_progress_req"] = ex.getattr_(state, cur, "request_id")
    return VOpaque(fresh_name("progress_future"))


def extra_checks(tier, seed):
    if tier != "thorough":
        return []
    from pyvc import replaylib as R
    return [R.native_crosscheck("C04/bounded/%s" % api, _HARNESS % {"api": api},
                                "every option of the API absent / falsy / typical x ids at both ends of the range x every "
                                "send failure, on the real session over a recording transport")
            for api in ("publish", "call", "subscribe", "register", "_unsubscribe", "_unregister", "RESULT")]


# ------------------------------------------------------------------------------------------ replay on the real code
_HARNESS = r'''
import json, sys, itertools
import txaio; txaio.use_asyncio()
from autobahn.wamp.protocol import ApplicationSession
from autobahn.wamp import message, role, types
from autobahn.wamp.exception import SerializationError, TransportLost
from autobahn.wamp.request import Subscription, Registration, Handler, Endpoint
from autobahn.exception import PayloadExceededError

API = %(api)r
class T:
    def __init__(s): s.fail = None; s.sent = []
    def send(s, m):
        if s.fail: raise s.fail
        s.sent.append(m)
    def is_open(s): return True
    def close(s): pass
    transport_details = None

def fresh(next_id=0):
    s = ApplicationSession(); t = T(); s.onOpen(t)
    s.onMessage(message.Welcome(1234, {"broker": role.RoleBrokerFeatures(), "dealer": role.RoleDealerFeatures()}))
    s._request_id_gen._next = next_id
    return s, t

TABLES = ["_publish_reqs", "_subscribe_reqs", "_unsubscribe_reqs", "_register_reqs", "_unregister_reqs", "_call_reqs"]
def snap(s): return {t: dict(getattr(s, t)) for t in TABLES}
bad, cases = [], 0
def chk(cond, what, case):
    if not cond and len(bad) < 6: bad.append({"what": what, "case": case})

def as_list(v): return v if type(v) == list else [v]
PUB_LISTS = ["exclude", "exclude_authid", "exclude_authrole", "eligible", "eligible_authid", "eligible_authrole"]
def pub_opts():
    yield None, {}
    base = [{}, {"acknowledge": True}, {"acknowledge": False}, {"exclude_me": False}, {"exclude_me": True}, {"retain": False},
            {"retain": True}, {"transaction_hash": ""}, {"transaction_hash": "abc"}, {"forward_for": []},
            {"correlation_id": "c1", "correlation_uri": "a.b", "correlation_is_anchor": False, "correlation_is_last": False}]
    for f in PUB_LISTS:
        vals = ([[], [7], [7, 8], 7, 0] if f in ("exclude", "eligible") else [[], ["x"], ["x", "y"], "x"])
        base += [{f: v} for v in vals]
    for b in base:
        yield types.PublishOptions(**b), b
        if "acknowledge" not in b:
            b2 = dict(b, acknowledge=True); yield types.PublishOptions(**b2), b2

def wire_opts(msg):
    return msg.marshal()[2]

def expect_pub(b):
    e = {}
    for k, v in b.items():
        if k.startswith("correlation"): continue
        if v is None: continue
        e[k] = as_list(v) if k in PUB_LISTS else v
    return e

def run_publish():
    global cases
    for opts, b in pub_opts():
        for start in (0, 41, 2**53 - 2):
            for fail in (None, SerializationError("x"), PayloadExceededError("x"), TransportLost("x")):
                s, t = fresh(start); t.fail = fail; before = snap(s); cases += 1
                case = {"options": repr(b), "start": start, "fail": repr(fail)}
                args, kw = (1, "a"), {"k": [1]}
                try:
                    r = s.publish("com.x.t", *args, options=opts, **kw) if opts is not None else s.publish("com.x.t", *args, **kw)
                except Exception as e:
                    chk(fail is not None and type(e) is type(fail), "unexpected exception %%r" %% (e,), case)
                    chk(not t.sent and snap(s) == before, "a refused publish left a record or sent something", case)
                    continue
                chk(fail is None, "send failed but publish returned", case)
                chk(len(t.sent) == 1 and isinstance(t.sent[0], message.Publish), "not exactly one PUBLISH", case)
                if len(t.sent) != 1: continue
                m = t.sent[0]
                chk(m.request == start + 1 and 1 <= m.request <= 2**53, "request id not the next fresh id", case)
                chk(m.topic == "com.x.t" and list(m.args) == list(args) and m.kwargs == kw, "topic/args/kwargs not faithful", case)
                chk(wire_opts(m) == expect_pub(b), "options on wire %%r != given %%r" %% (wire_opts(m), expect_pub(b)), case)
                for c in ("correlation_id", "correlation_uri", "correlation_is_anchor", "correlation_is_last"):
                    if b.get(c) is not None: chk(getattr(m, c) == b[c], c + " not copied", case)
                ack = bool(b.get("acknowledge"))
                if ack:
                    chk(m.request in s._publish_reqs and s._publish_reqs[m.request].on_reply is r and not r.done(), "acknowledged publish not recorded with its pending result", case)
                else:
                    chk(r is None and snap(s) == before, "unacknowledged publish recorded / returned something", case)
                after = snap(s)
                for tn in TABLES:
                    for k in before[tn]: chk(after[tn].get(k) is before[tn][k], "another pending request disturbed", case)

def call_opts():
    yield None, {}
    for b in [{}, {"timeout": 1}, {"timeout": 10}, {"on_progress": (lambda *a, **k: None)}, {"transaction_hash": ""},
              {"transaction_hash": "h"}, {"caller": 0}, {"caller": 5, "caller_authid": "", "caller_authrole": ""},
              {"caller": 5, "caller_authid": "u", "caller_authrole": "r"}, {"forward_for": []},
              {"correlation_id": "c1", "correlation_uri": "a.b", "correlation_is_anchor": False, "correlation_is_last": False}]:
        yield types.CallOptions(**b), b

def expect_call(b):
    e = {}
    for k, v in b.items():
        if k.startswith("correlation") or v is None: continue
        if k == "on_progress": e["receive_progress"] = True
        else: e[k] = v
    return e

def run_call():
    global cases
    for opts, b in call_opts():
        for start in (0, 41, 2**53 - 2):
            for fail in (None, SerializationError("x"), PayloadExceededError("x"), TransportLost("x")):
                s, t = fresh(start); t.fail = fail; before = snap(s); cases += 1
                case = {"options": repr(sorted(b)), "start": start, "fail": repr(fail)}
                args, kw = (1, "a"), {"k": [1]}
                try:
                    r = s.call("com.x.p", *args, options=opts, **kw) if opts is not None else s.call("com.x.p", *args, **kw)
                except Exception as e:
                    chk(fail is not None and type(e) is type(fail), "unexpected exception %%r" %% (e,), case)
                    chk(not t.sent and snap(s) == before, "a refused call left a record or sent something", case)
                    continue
                chk(fail is None, "send failed but call returned", case)
                chk(len(t.sent) == 1 and isinstance(t.sent[0], message.Call), "not exactly one CALL", case)
                if len(t.sent) != 1: continue
                m = t.sent[0]
                chk(m.request == start + 1, "request id not the next fresh id", case)
                chk(m.procedure == "com.x.p" and list(m.args) == list(args) and m.kwargs == kw, "procedure/args/kwargs not faithful", case)
                chk(wire_opts(m) == expect_call(b), "options on wire %%r != given %%r" %% (wire_opts(m), expect_call(b)), case)
                chk(m.request in s._call_reqs and s._call_reqs[m.request].on_reply is r and not r.done() and
                    s._call_reqs[m.request].request_id == m.request, "call not recorded with its pending result", case)
                chk(s._call_reqs[m.request].options is opts, "call request does not keep its options (on_progress)", case)

def sub_opts():
    yield None, {}
    for b in [{}, {"match": "exact"}, {"match": "prefix"}, {"match": "wildcard"}, {"get_retained": False}, {"get_retained": True},
              {"forward_for": []}, {"details_arg": "d"}, {"details": True},
              {"correlation_id": "c1", "correlation_uri": "a.b", "correlation_is_anchor": False, "correlation_is_last": False}]:
        yield types.SubscribeOptions(**b), b

def reg_opts():
    yield None, {}
    for b in [{}, {"match": "exact"}, {"match": "prefix"}, {"invoke": "single"}, {"invoke": "roundrobin"}, {"concurrency": 1},
              {"force_reregister": False}, {"force_reregister": True}, {"forward_for": []}, {"details_arg": "d"},
              {"correlation_id": "c1", "correlation_uri": "a.b", "correlation_is_anchor": False, "correlation_is_last": False}]:
        yield types.RegisterOptions(**b), b

def expect_plain(b, drop=("details", "details_arg")):
    return {k: v for k, v in b.items() if not k.startswith("correlation") and v is not None and k not in drop}

def run_subreg(kind):
    global cases
    for opts, b in (sub_opts() if kind == "subscribe" else reg_opts()):
        for start in (0, 41, 2**53 - 2):
            for fail in (None, SerializationError("x"), PayloadExceededError("x"), TransportLost("x")):
                s, t = fresh(start); t.fail = fail; before = snap(s); cases += 1
                case = {"api": kind, "options": repr(b), "start": start, "fail": repr(fail)}
                fn = lambda *a, **k: None
                tab = s._subscribe_reqs if kind == "subscribe" else s._register_reqs
                try:
                    r = s.subscribe(fn, "com.x.t", options=opts) if kind == "subscribe" else s.register(fn, "com.x.t", options=opts)
                except Exception as e:
                    chk(fail is not None and type(e) is type(fail), "unexpected exception %%r" %% (e,), case)
                    chk(not t.sent and snap(s) == before, "a refused %%s left a record or sent something" %% kind, case)
                    continue
                cls = message.Subscribe if kind == "subscribe" else message.Register
                chk(fail is None, "send failed but the call returned", case)
                chk(len(t.sent) == 1 and isinstance(t.sent[0], cls), "not exactly one request message", case)
                if len(t.sent) != 1: continue
                m = t.sent[0]
                chk(m.request == start + 1, "request id not the next fresh id", case)
                chk((m.topic if kind == "subscribe" else m.procedure) == "com.x.t", "URI not faithful", case)
                ref = cls(1, "com.x.t")       # the same message without any option: what an absent option must look like
                for k in (("match", "get_retained", "forward_for") if kind == "subscribe" else
                          ("match", "invoke", "concurrency", "force_reregister", "forward_for")):
                    want = b[k] if b.get(k) is not None else getattr(ref, k)
                    chk(getattr(m, k) == want, "option %%s on the message %%r != given %%r" %% (k, getattr(m, k), want), case)
                chk(m.request in tab and tab[m.request].on_reply is r and not r.done() and tab[m.request].request_id == m.request,
                    "request not recorded with its pending result", case)
                h = tab[m.request].handler if kind == "subscribe" else tab[m.request].endpoint
                chk(h.fn is fn and h.details_arg == (opts.details_arg if opts is not None else None), "handler / details_arg not recorded", case)

def run_unsub():
    global cases
    for n in (1, 2, 3):
        for which in range(n):
            for start in (0, 41):
                for fail in (None, SerializationError("x"), TransportLost("x")):
                    s, t = fresh(start); cases += 1
                    subs = [Subscription(77, "a.b", s, Handler(lambda: 1)) for _ in range(n)]
                    s._subscriptions[77] = list(subs); s._subscriptions[78] = [Subscription(78, "a.c", s, Handler(lambda: 1))]
                    t.fail = fail; before = snap(s)
                    case = {"api": "_unsubscribe", "handlers": n, "which": which, "fail": repr(fail)}
                    try:
                        r = s._unsubscribe(subs[which])
                    except Exception as e:
                        chk(fail is not None and n == 1 and type(e) is type(fail), "unexpected exception %%r" %% (e,), case)
                        chk(not t.sent and snap(s) == before, "a refused UNSUBSCRIBE left a record", case)
                        continue
                    chk(not subs[which].active and subs[which] not in s._subscriptions[77] and len(s._subscriptions[77]) == n - 1, "handler not removed", case)
                    chk(len(s._subscriptions[78]) == 1, "another subscription disturbed", case)
                    if n == 1:
                        chk(fail is None and len(t.sent) == 1 and isinstance(t.sent[0], message.Unsubscribe) and t.sent[0].request == start + 1
                            and t.sent[0].subscription == 77, "no UNSUBSCRIBE with the fresh id for the last handler", case)
                        if len(t.sent) == 1:
                            q = s._unsubscribe_reqs.get(t.sent[0].request)
                            chk(q is not None and q.on_reply is r and q.subscription_id == 77 and not r.done(), "UNSUBSCRIBE not recorded", case)
                    else:
                        chk(not t.sent and snap(s) == before, "UNSUBSCRIBE sent although handlers remain", case)

def run_unreg():
    global cases
    for start in (0, 41, 2**53 - 2):
        for fail in (None, SerializationError("x"), PayloadExceededError("x"), TransportLost("x")):
            s, t = fresh(start); cases += 1
            reg = Registration(s, 9, "a.b", Endpoint(lambda: 1)); s._registrations[9] = reg
            t.fail = fail; before = snap(s); case = {"api": "_unregister", "start": start, "fail": repr(fail)}
            try:
                r = s._unregister(reg)
            except Exception as e:
                chk(fail is not None and type(e) is type(fail), "unexpected exception %%r" %% (e,), case)
                chk(not t.sent and snap(s) == before, "a refused UNREGISTER left a record", case)
                continue
            chk(fail is None and len(t.sent) == 1 and isinstance(t.sent[0], message.Unregister) and t.sent[0].request == start + 1 and
                t.sent[0].registration == 9, "not exactly one UNREGISTER with the fresh id", case)
            q = s._unregister_reqs.get(start + 1)
            chk(q is not None and q.on_reply is r and q.registration_id == 9 and not r.done(), "UNREGISTER not recorded", case)

def run_result():
    global cases
    for opts in (None, types.CallOptions(), types.CallOptions(on_progress=lambda *a, **k: seen.append(a)), types.CallOptions(details=True)):
        for prog_first in (False, True):
            s, t = fresh(0); s._session_id = 1234; seen = []; cases += 1
            f = s.call("com.x.p", 1, options=opts) if opts is not None else s.call("com.x.p", 1)
            g = s.call("com.x.q", 2)
            rid = t.sent[0].request
            case = {"api": "RESULT", "options": repr(opts), "progressive_first": prog_first}
            try:
                if prog_first:
                    s.onMessage(message.Result(rid, args=[7], progress=True))
                    chk(not f.done() and not g.done() and rid in s._call_reqs, "a progressive result completed a call", case)
                s.onMessage(message.Result(rid, args=[8]))
            except Exception as e:
                chk(False, "RESULT for a pending call raised %%r" %% (e,), case); continue
            chk(f.done() and not g.done() and rid not in s._call_reqs and t.sent[1].request in s._call_reqs, "terminal result did not complete exactly its own call", case)

{"RESULT": run_result, "publish": run_publish, "call": run_call, "subscribe": lambda: run_subreg("subscribe"), "register": lambda: run_subreg("register"),
 "_unsubscribe": run_unsub, "_unregister": run_unreg}[API]()
print(json.dumps({"bad": bad, "cases": cases}))
'''


def _api_of(unit):
    for api in ("_unsubscribe", "_unregister", "publish", "call", "subscribe", "register"):
        if ("." + api + "[") in unit or ("." + api + "/") in unit or unit.endswith("." + api):
            return api
    return None


def replay(o):
    """request-issuing units: the real session over a recording / refusing transport, driven through every option of the
    API (absent, falsy and typical values), ids at the start, middle and end of the range, and every send failure; the
    property is checked directly (one message, fresh id, options on the wire equal the options given, record kept or
    removed).  A counterexample of the verifier only selects the API; the harness finds the concrete failing call."""
    from pyvc import replaylib as R
    unit = o.get("unit") or o.get("name", "")
    api = "RESULT" if "onMessage<Result>" in unit else _api_of(unit)
    if api is None or "[transport lost]" in unit:
        return {"reproduced": False, "detail": "no replay harness for this unit"}
    out = R.run_py(_HARNESS % {"api": api}, timeout=300)
    bad = out.get("bad") if isinstance(out, dict) else None
    return {"reproduced": bool(bad), "cases": (bad or [])[:4], "observed": out if not bad else {"cases": out.get("cases")},
            "detail": "boundary-case run of the real %s() over a recording transport" % api}
