"""C04 — Each WAMP request completes exactly once with its own reply."""
from . import wamp_common as W
from .wamp_common import SESS, PR

ASSUMPTIONS = list(W.ASSUMPTIONS)
MSG = "autobahn.wamp.message"

TABLES = ["_publish_reqs", "_subscribe_reqs", "_unsubscribe_reqs", "_register_reqs", "_unregister_reqs", "_call_reqs"]


def build(reg):
    common = dict(props=["C04"], spec_module="specs.wamp")
    reg.shape("IdGenerator", cls="autobahn.util:IdGenerator", fields={"_next": "int"})
    # request ids: sequential from 1, always within 1..2^53
    reg.contract("autobahn.util:IdGenerator.next", params={"self": "obj:IdGenerator"}, returns="int",
                 requires=["0 <= self._next <= 2**53"], modifies=["self._next"],
                 ensures=["1 <= result <= 2**53", "result == self._next",
                          "result == old(self._next) + 1 or (old(self._next) == 2**53 and result == 1)"], **common)
    reg.contract("autobahn.util:IdGenerator.__init__", params={"self": "obj:IdGenerator"}, modifies=["self._next"],
                 ensures=["self._next == 0"], **common)
    W.build_shapes(reg)

    def reply(mshape, fields, table, rec, extra_mod, clauses, name=None, extra_req=(), extra_raise="", loop=None):
        """one reply arm of ApplicationSession.onMessage: msg is an instance of exactly that message class"""
        reg.shape(mshape, cls=MSG + ":" + mshape, fields=fields)
        T = "self." + table
        reg.contract(
            SESS + ".onMessage", name=SESS + ".onMessage<%s>" % (name or mshape),
            params={"self": "obj:Session", "msg": "obj:" + mshape},
            requires=["self._session_id is not None",
                      # records in the table are allocated and keyed by their own request id
                      "implies(msg.request in %s, allocated(%s[msg.request].on_reply))" % (T, T)] + list(extra_req),
            modifies=[T, "Fut.done", "Fut.ok", "Fut.res_id", "ghost.n_completions"] + extra_mod,
            ensures=[
                # the record that bears this request id (and type) is consumed ...
                "msg.request not in %s" % T,
                # ... every other pending request of this kind is untouched (whole-view frame; the other five tables and
                #     all other records are covered by the frame obligations of this unit)
                "forall(k, 0, 2**53 + 1, implies(k != msg.request, (k in %s) == (k in old(%s))))" % (T, T),
                "forall(k, 0, 2**53 + 1, implies(k != msg.request and k in %s, %s[k] is old(%s[k])))" % (T, T, T),
                # ... and only its future is completed, exactly once
                "forall(f, 0, 2**62, implies(f != old(%s[msg.request].on_reply.addr) and allocated_before(f), "
                "fut_done(f) == old(fut_done(f))))" % T,
                "ghost.n_completions <= old(ghost.n_completions) + 1",
                "ghost.n_sent == old(ghost.n_sent)",
            ] + clauses,
            # a reply that matches no pending request is a protocol violation, not matched to anything
            raises={"ProtocolError": "msg.request not in %s%s" % (T, extra_raise)},
            raises_ensures={"ProtocolError": [
                "ghost.n_completions == old(ghost.n_completions)",
                # a protocol violation consumes nothing: no pending request silently loses its reply
                "forall(k, 0, 2**53 + 1, (k in %s) == old(k in %s))" % (T, T)]},
            loops=(loop or {}), **common)

    FUT = "old(self.%s[msg.request].on_reply.addr)"
    reply("Published", {"request": "int", "publication": "int"}, "_publish_reqs", "PublishRequest", ["Publication.*"],
          ["implies(not old(fut_done(self._publish_reqs[msg.request].on_reply.addr)), fut_done(%s) and fut_ok(%s))"
           % ((FUT % "_publish_reqs",) * 2)])
    reply("Registered", {"request": "int", "registration": "int"}, "_register_reqs", "RegisterRequest",
          ["self._registrations", "Registration.*"], extra_raise=" or msg.registration in self._registrations", clauses=
          ["implies(not old(fut_done(self._register_reqs[msg.request].on_reply.addr)), fut_done(%s) and fut_ok(%s) and "
           "msg.registration in self._registrations and self._registrations[msg.registration].id == msg.registration)"
           % ((FUT % "_register_reqs",) * 2)])


    reply("Unregistered", {"request": "int", "registration": "int"}, "_unregister_reqs", "UnregisterRequest",
          ["self._registrations", "Registration.active"], extra_req=["msg.request != 0"], clauses=[
              "implies(not old(fut_done(self._unregister_reqs[msg.request].on_reply.addr)), fut_done(%s) and fut_ok(%s) and "
              "old(self._unregister_reqs[msg.request].registration_id) not in self._registrations)"
              % ((FUT % "_unregister_reqs",) * 2)])
    reply("Subscribed", {"request": "int", "subscription": "int"}, "_subscribe_reqs", "SubscribeRequest",
          ["self._subscriptions", "Subscription.*"], clauses=[
              "implies(not old(fut_done(self._subscribe_reqs[msg.request].on_reply.addr)), fut_done(%s) and fut_ok(%s) and "
              "msg.subscription in self._subscriptions and len(self._subscriptions[msg.subscription]) == "
              "(old(len(self._subscriptions[msg.subscription])) if old(msg.subscription in self._subscriptions) else 0) + 1)"
              % ((FUT % "_subscribe_reqs",) * 2)])
    reply("Unsubscribed", {"request": "int", "subscription": "opt:int", "reason": "opt:str"}, "_unsubscribe_reqs",
          "UnsubscribeRequest", ["self._subscriptions", "Subscription.active"], clauses=[
              "implies(not old(fut_done(self._unsubscribe_reqs[msg.request].on_reply.addr)), fut_done(%s) and fut_ok(%s) and "
              "old(self._unsubscribe_reqs[msg.request].subscription_id) not in self._subscriptions)"
              % ((FUT % "_unsubscribe_reqs",) * 2)],
          loop={"iter:self._subscriptions[request.subscription_id]": {"invariant": ["0 <= _i", "request.subscription_id in self._subscriptions",
                              "forall(k, 0, 2**53 + 1, (k in self._subscriptions) == old(k in self._subscriptions))"],
                "modifies": ["Subscription.active"], "pure_calls": True, "index": "_i", "vars": {"subscription": "sym:Subscription"}}})
    # RESULT: terminal results complete the call; progressive results reach only the progress handler of their own call
    from pyvc import models
    from pyvc.values import VOpaque, fresh_name
    models.CLASS_MODELS["CallResult"] = lambda ex, state, args, kwargs: VOpaque(fresh_name("CallResult"))
    reg.external("txaio.as_future", lambda ex, state, args, kwargs, sv: _as_future(ex, state, args))
    reg.external("txaio.add_callbacks", lambda ex, state, args, kwargs, sv: __import__("pyvc.values", fromlist=["VNone"]).VNone)
    reg.shape("Result", cls=MSG + ":Result", fields={
        "request": "int", "args": "opt:list:int", "kwargs": "any", "progress": "bool", "enc_algo": "none", "payload": "none",
        "enc_key": "none", "enc_serializer": "none", "callee": "any", "callee_authid": "any", "callee_authrole": "any",
        "forward_for": "any"})
    T = "self._call_reqs"
    reg.contract(
        SESS + ".onMessage", name=SESS + ".onMessage<Result>", params={"self": "obj:Session", "msg": "obj:Result"},
        requires=["self._session_id is not None",
                  "implies(msg.request in %s, allocated(%s[msg.request].on_reply) and "
                  "%s[msg.request].request_id == msg.request)" % (T, T, T)],     # records are keyed by their own id
        modifies=[T, "Fut.done", "Fut.ok", "Fut.res_id", "ghost.n_completions", "ghost.n_progress", "ghost.last_progress_req"],
        ensures=[
            # terminal result: the call record is consumed and only its future completed
            "implies(not msg.progress, msg.request not in %s and implies(not old(fut_done(%s[msg.request].on_reply.addr)), "
            "fut_done(old(%s[msg.request].on_reply.addr))))" % (T, T, T),
            # progressive result: the call stays pending, nothing is completed, at most the progress handler of *this*
            # call is invoked
            "implies(msg.progress, msg.request in %s and %s[msg.request] is old(%s[msg.request]) and "
            "ghost.n_completions == old(ghost.n_completions) and ghost.n_progress <= old(ghost.n_progress) + 1 and "
            "implies(ghost.n_progress == old(ghost.n_progress) + 1, ghost.last_progress_req == msg.request))" % (T, T, T),
            "forall(k, 0, 2**53 + 1, implies(k != msg.request, (k in %s) == old(k in %s)))" % (T, T),
            "forall(k, 0, 2**53 + 1, implies(k != msg.request and k in %s, %s[k] is old(%s[k])))" % (T, T, T),
            "forall(f, 0, 2**62, implies(f != old(%s[msg.request].on_reply.addr) and allocated_before(f), "
            "fut_done(f) == old(fut_done(f))))" % T,
            "ghost.n_completions <= old(ghost.n_completions) + 1", "ghost.n_sent == old(ghost.n_sent)"],
        raises={"ProtocolError": "msg.request not in %s" % T},
        raises_ensures={"ProtocolError": ["ghost.n_completions == old(ghost.n_completions)",
                                          "forall(k, 0, 2**53 + 1, (k in %s) == old(k in %s))" % (T, T)]}, **common)

    # ERROR replies are keyed by (request type, request id): six tables, one arm
    reg.contract(PR + ":BaseSession._exception_from_message", params={"self": "obj:Session", "msg": "any"}, returns="any",
                 verify=False, props=["C18"], spec_module="specs.wamp")
    reg.shape("Error", cls=MSG + ":Error", fields={"request_type": "int", "request": "int", "error": "str", "args": "any",
                                                   "kwargs": "any", "enc_algo": "any", "payload": "any"})
    TYPES = {"_call_reqs": 48, "_publish_reqs": 16, "_subscribe_reqs": 32, "_unsubscribe_reqs": 34,
             "_register_reqs": 64, "_unregister_reqs": 66}
    pending = " or ".join("(msg.request_type == %d and msg.request in self.%s)" % (c, t) for t, c in TYPES.items())
    clauses = []
    for t, c in TYPES.items():
        T = "self." + t
        clauses += [
            # matched by type *and* id: the record of exactly that table is consumed and its future rejected
            "implies(msg.request_type == %d, msg.request not in %s and "
            "implies(not old(fut_done(%s[msg.request].on_reply.addr)), fut_done(old(%s[msg.request].on_reply.addr)) and "
            "not fut_ok(old(%s[msg.request].on_reply.addr))))" % (c, T, T, T, T),
            # a table of another request type is never touched, even if it holds the same request id
            "implies(msg.request_type != %d, forall(k, 0, 2**53 + 1, (k in %s) == old(k in %s)))" % (c, T, T),
            "forall(k, 0, 2**53 + 1, implies(k != msg.request, (k in %s) == old(k in %s)))" % (T, T),
        ]
    reg.contract(
        SESS + ".onMessage", name=SESS + ".onMessage<Error>", params={"self": "obj:Session", "msg": "obj:Error"},
        requires=["self._session_id is not None"],
        modifies=["self." + t for t in TYPES] + ["Fut.done", "Fut.ok", "Fut.res_id", "ghost.n_completions"],
        ensures=clauses + ["ghost.n_completions <= old(ghost.n_completions) + 1", "ghost.n_sent == old(ghost.n_sent)"],
        raises={"ProtocolError": "not (%s)" % pending},
        raises_ensures={"ProtocolError": ["ghost.n_completions == old(ghost.n_completions)"]}, **common)
    from . import c04_requests
    W.install_message_models(reg)
    c04_requests.build_requests(reg, common)


def _as_future(ex, state, args):
    """txaio.as_future(fn, ...): calls fn now; here only the progress handler of a call request can be the target:
    count the invocation and remember whose handler it was"""
    from pyvc.values import VInt, VOpaque, fresh_name, simp
    g = state.heap[state.ghost.oid]
    g.fields["n_progress"] = VInt(simp(g.fields["n_progress"].t + 1))
    fn = args[0]
    tag = getattr(fn, "tag", "")
    # the opaque value read from call_request.options.on_progress carries the request it was read for
    cur = state.frame.locals.get("call_request")
    if cur is not None:
        g.fields["last_progress_req"] = ex.getattr_(state, cur, "request_id")
    return VOpaque(fresh_name("progress_future"))


def extra_checks(tier, seed):
    return []
