"""C11 — Events reach exactly the handlers subscribed at that moment."""
import z3

from pyvc.values import *  # noqa
from . import wamp_common as W
from .wamp_common import SESS, PR

ASSUMPTIONS = list(W.ASSUMPTIONS) + [
    "txaio.as_future(handler.fn, ...) runs the handler now, once; a synchronous handler may re-enter the session by "
    "unsubscribing *itself* (the one-shot handler idiom) -- other re-entrant calls from inside a handler are not modelled",
    "positional event arguments are not modelled in the Event arm (msg.args is None there); keyword arguments are a "
    "symbolic table str -> value id",
]
MSG = "autobahn.wamp.message"
SUBS = "self._subscriptions[msg.subscription]"


def ext_event_as_future(ex, state, args, kwargs, sv):
    """invocation of one event handler: appended to ghost.invoked together with what it was handed; the handler may
    unsubscribe itself synchronously"""
    from pyvc import models
    g = state.heap[state.ghost.oid]
    sub = ex.lookup(state, "subscription")
    handler = ex.lookup(state, "handler")
    msg = ex.lookup(state, "msg")
    models.list_append(ex, state, [VInt(sub.t)], {}, g.fields["invoked"])
    # ---- what the handler is handed: the published keyword arguments plus its own details argument, nothing else
    kw = kwargs.get("**")
    pub = ex.getattr_(ex.unit_pre, ex.unit_env["msg"], "kwargs")        # the published kwargs (entry state of the unit)
    da = ex.getattr_(state, handler, "details_arg")
    k = z3.String(fresh_name("kwkey"))
    passed = _has_key(ex, state, kw, k)
    published = _has_key(ex, ex.unit_pre, pub, k)
    own = simp(disj([z3.And(gd, a.t == k, z3.Length(a.t) > 0) for gd, a in alts_of(da) if isinstance(a, VStr)]))
    ex.oblige("handler-kwargs", state, passed == z3.Or(published, own),
              info={"clause": "kwargs handed to the handler == published kwargs (+ this handler's details argument)"})
    # ---- re-entrancy: the handler may unsubscribe itself (removes its subscription from the live list)
    sess = ex.lookup(state, "self")
    table = ex.getattr_(state, sess, "_subscriptions")
    o = state.heap[table.oid]
    key = ex.num(ex.getattr_(state, msg, "subscription"))
    s = z3.Select(o.sym["val"], key)
    b = z3.Bool(fresh_name("handler_unsubscribes_itself"))
    i = z3.IndexOf(s, z3.Unit(sub.t), 0)
    removed = z3.Concat(z3.Extract(s, 0, i), z3.Extract(s, i + 1, z3.Length(s) - i - 1))
    o.sym = dict(o.sym)
    o.sym["val"] = z3.Store(o.sym["val"], key, z3.If(z3.And(b, i >= 0), removed, s))
    return VOpaque(fresh_name("handler_future"))


def _has_key(ex, state, d, k):
    res = []
    for gd, a in alts_of(d):
        if isinstance(a, VRef):
            o = ex.obj(state, a)
            if o.sym is not None:
                res.append(z3.And(gd, z3.Select(o.sym["has"], k)))
            elif o.d is not None:
                res.append(z3.And(gd, disj([k == z3.StringVal(c) for c in o.d if isinstance(c, str)])))
    return simp(disj(res))


def _both_headers(spec):
    """the dispatch loop is recognised by its header; both the snapshot form and the live-list form get the invariant
    (the live-list form cannot satisfy it: a self-unsubscribing handler shifts the remaining handlers)"""
    return {"iter:list(self._subscriptions[msg.subscription])": spec, "iter:self._subscriptions[msg.subscription]": spec,
            "target:subscription": spec}


def build(reg):
    W.build_shapes(reg)
    W.install_message_models(reg)
    common = dict(props=["C11"], spec_module="specs.wamp")
    reg.shapes["Ghost"].fields.update({"invoked": "list:int"})
    reg.shapes["HandlerRec"].fields.update({"fn": "any", "obj": "opt:int", "details_arg": "opt:str"})
    reg.external("txaio.as_future", ext_event_as_future)
    reg.external("txaio.add_callbacks", lambda ex, state, args, kwargs, sv: VNone)
    from pyvc import models
    models.CLASS_MODELS["EventDetails"] = lambda ex, state, args, kwargs: VInt(z3.Int(fresh_name("event_details")))
    reg.shape("Event", cls=MSG + ":Event", fields={
        "subscription": "int", "publication": "int", "args": "none", "kwargs": "opt:dict:str->int", "payload": "none",
        "publisher": "any", "publisher_authid": "any", "publisher_authrole": "any", "topic": "opt:str", "retained": "any",
        "transaction_hash": "any", "x_acknowledged_delivery": "any", "enc_algo": "none", "enc_key": "none",
        "enc_serializer": "none", "forward_for": "any"})
    reg.contract(
        SESS + ".onMessage", name=SESS + ".onMessage<Event>", params={"self": "obj:Session", "msg": "obj:Event"},
        requires=["self._session_id is not None"],
        modifies=["ghost.invoked", "self._subscriptions"],
        ensures=[
            # delivered to exactly the handlers attached at the time the event arrives: once each, in subscription order
            "len(ghost.invoked) == old(len(ghost.invoked)) + old(len(%s))" % SUBS,
            "forall(j, 0, old(len(%s)), ghost.invoked[old(len(ghost.invoked)) + j] == old(%s[j].addr))" % (SUBS, SUBS),
        ],
        # an EVENT for an id the session does not hold is a protocol violation (an id whose handlers are all gone but
        # whose UNSUBSCRIBED has not arrived yet is still held: nothing invoked, no error)
        raises={"ProtocolError": "msg.subscription not in self._subscriptions"},
        raises_ensures={"ProtocolError": ["len(ghost.invoked) == old(len(ghost.invoked))"]},
        loops=_both_headers({"index": "_i", "invariant": [
            "0 <= _i <= old(len(%s)) and msg.subscription in self._subscriptions" % SUBS,
            "len(ghost.invoked) == old(len(ghost.invoked)) + _i",
            "forall(j, 0, _i, ghost.invoked[old(len(ghost.invoked)) + j] == old(%s[j].addr))" % SUBS],
            "modifies": ["ghost.invoked", "self._subscriptions"], "preserves": ["msg.kwargs", "msg.args"],
            "vars": {"subscription": "sym:Subscription", "handler": "sym:HandlerRec"}}),
        **common)
    # ---- _unsubscribe: exactly that subscription is removed and deactivated; UNSUBSCRIBE iff it was the last handler
    L = "self._subscriptions[subscription.id]"
    reg.contract(
        SESS + "._unsubscribe", params={"self": "obj:Session", "subscription": "sym:Subscription"}, returns="any",
        requires=["self._transport is not None", "self._request_id_gen._next >= 0 and self._request_id_gen._next <= 2**53"],
        modifies=["self._subscriptions", "Subscription.active", "self._unsubscribe_reqs", "UnsubscribeRequest.*", "Fut.*",
                  "ghost.n_sent", "ghost.last_sent", "self._request_id_gen._next", "ghost.n_completions"],
        ensures=[
            "not subscription.active",
            "len(%s) == old(len(%s)) - 1" % (L, L),
            "forall(k, 0, 2**53 + 1, implies(k != subscription.id, (k in self._subscriptions) == old(k in self._subscriptions)))",
            # UNSUBSCRIBE goes to the router exactly when the last handler of the subscription is removed
            "ghost.n_sent == old(ghost.n_sent) + (1 if old(len(%s)) == 1 else 0)" % L,
            "implies(old(len(%s)) == 1, isinstance(ghost.last_sent, Unsubscribe) and "
            "ghost.last_sent.subscription == subscription.id)" % L,
        ],
        raises={"AssertionError": "True", "SerializationError": "True", "PayloadExceededError": "True",
                "TransportLost": "True"}, **common)


def extra_checks(tier, seed):
    return []
