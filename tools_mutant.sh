#!/bin/sh
# usage: tools_mutant.sh <property> <patch-file> [extra check args]
# applies the patch to a scratch copy of /repo/src (never to /repo), runs the quick check against it, removes it.
set -e
P="$1"; PATCH="$(realpath "$2")"; shift 2
S="$(mktemp -d /tmp/pyvc_mut.XXXXXX)"
trap 'rm -rf "$S"' EXIT
mkdir -p "$S/src"
cp -r /repo/src/autobahn "$S/src/autobahn"
( cd "$S" && git init -q . 2>/dev/null && git apply --unsafe-paths -p1 "$PATCH" ) || { echo "PATCH-DOES-NOT-APPLY"; exit 4; }
cd "$(dirname "$0")"
PYVC_REPO="$S" PYVC_NO_EVIDENCE=1 ./check "$P" "$@"
