"""Contract-level lemma programs for C15 (they use the maskers' *contracts* only)."""


def chunk_lemma(m1, m2, a, b):
    r1 = m1.process(a)
    r2 = m1.process(b)
    r = m2.process(a + b)
    return (r1, r2, r)


def involution_lemma(m1, m2, a):
    r1 = m1.process(a)
    r2 = m2.process(r1)
    return (r1, r2)
