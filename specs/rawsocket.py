"""Spec functions for WAMP RawSocket (handshake octets and 4-octet frame prefix), written from the WAMP specification
(section "RawSocket Transport"), independent of the implementations."""


def hs_ser(h):
    """serializer code: low nibble of the second handshake octet"""
    return h[1] % 16


def hs_lexp(h):
    """length exponent: high nibble of the second handshake octet (maximum message length 2**(9+n))"""
    return h[1] // 16


def hs_octet2(lexp, ser):
    return lexp * 16 + ser


def hs_max_len(h):
    return 2 ** (9 + hs_lexp(h))


def be24(b, i):
    return b[i] * 65536 + b[i + 1] * 256 + b[i + 2]


def frame_type(b, i):
    return b[i] % 8
