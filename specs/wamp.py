"""Spec functions for the WAMP session properties."""
from autobahn.wamp.message import (Hello, Welcome, Abort, Challenge, Authenticate, Goodbye, Error, Publish, Published,
                                   Subscribe, Subscribed, Unsubscribe, Unsubscribed, Event, EventReceived, Call, Cancel,
                                   Result, Register, Registered, Unregister, Unregistered, Invocation, Interrupt, Yield)
from autobahn.wamp.exception import ApplicationError
