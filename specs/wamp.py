"""Spec functions for the WAMP session properties."""
