"""Spec functions for C19, written from the RFCs over uninterpreted primitives (HMAC, PBKDF2, base32/base64)."""
import struct


def hotp(K, C):
    """RFC 4226 section 5.3: HS = HMAC-SHA-1(K, C as 8-byte big-endian); dynamic truncation at offset = low 4 bits of
    HS[19]; the 31-bit big-endian number at that offset (top bit masked), modulo 10^6"""
    hs = HMAC_SHA1(K, struct.pack(">Q", C))
    o = hs[19] % 16
    snum = (hs[o] % 128) * 16777216 + hs[o + 1] * 65536 + hs[o + 2] * 256 + hs[o + 3]
    return snum % 1000000


def totp_counter(now_seconds, offset):
    """RFC 6238: T = floor(unix time / 30), plus the verifier's step offset"""
    return offset + now_seconds // 30


def wcs(key, challenge):
    """WAMP-CRA: base64(HMAC-SHA256(key, challenge))"""
    return B64(HMAC_SHA256(key, challenge))
