"""Spec helpers for C07 (RFC 6455 section 4)."""
