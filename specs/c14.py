"""Spec functions for C14 (retry budget)."""
