"""Codec lemma for C01 (spec level): decoding the header octets produced by the RFC 6455 encoder gives back the frame."""
from specs.ws import enc_header


def encode(fin, rsv, opcode, masked, n, rest):
    return enc_header(fin, rsv, opcode, masked, n) + rest
