"""WAMP URI / id grammar, written from the WAMP specification text (section "URIs", "IDs"), independent of the
implementation's regular expressions.  The regular languages themselves are built in contracts/c08.py (z3 has no
Python-level regex type); this module only holds the integer part."""

ID_MAX = 2 ** 53


def id_ok(v):
    return 0 <= v <= ID_MAX

from autobahn.wamp.message import (Hello, Welcome, Abort, Challenge, Authenticate, Goodbye, Error, Publish, Published,  # noqa
                                   Subscribe, Subscribed, Unsubscribe, Unsubscribed, Event, EventReceived, Call, Cancel,
                                   Result, Register, Registered, Unregister, Unregistered, Invocation, Interrupt, Yield)
