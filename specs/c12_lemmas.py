"""Contract-level lemma program for C12: the parameters both ends run with after a server accepted an offer and the
client accepted the response that announces exactly what the accept's extension string announces."""
from autobahn.websocket.compress_deflate import (PerMessageDeflate, PerMessageDeflateResponse,
                                                 PerMessageDeflateResponseAccept)


def both_ends(accept):
    server = PerMessageDeflate.create_from_offer_accept(True, accept)
    # what get_extension_string() announces (decided separately by exhaustive enumeration): the parameters the server
    # runs its own direction with, and the accept's requests for the client direction
    eff_nct = accept.offer.request_no_context_takeover or (accept.no_context_takeover is True)
    eff_wb = accept.window_bits if accept.window_bits is not None else accept.offer.request_max_window_bits
    response = PerMessageDeflateResponse(accept.request_max_window_bits, accept.request_no_context_takeover,
                                         eff_wb, eff_nct)
    client = PerMessageDeflate.create_from_response_accept(False, PerMessageDeflateResponseAccept(response))
    return (server, client)
