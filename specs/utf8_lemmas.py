"""Contract-level lemma programs for C09: they call the *contracts* of the real functions (never their
bodies), so the lemma is a consequence of what each implementation has been proved to satisfy."""


def chunk_lemma(v, w, a, b):
    """feeding a then b to one validator vs a+b to another validator in the same state"""
    r1 = v.validate(a)
    r2 = v.validate(b)
    r = w.validate(a + b)
    return (r1, r2, r)
