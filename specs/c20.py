"""Spec helpers for C20 (the sealed payload is the JSON object {"uri", "args", "kwargs"})."""
