"""RFC 3629 / Unicode Table 3-7 well-formed UTF-8, as a step function over eight sequence contexts.
Written from the standard as byte ranges; independent of Hoehrmann's table.

contexts: START(0) expecting a lead byte; T1/T2/T3 expecting 1/2/3 generic continuation bytes;
E0, ED, F0, F4: the lead bytes whose *first* continuation byte is range-restricted (no overlongs,
no surrogates, nothing above U+10FFFF); REJECT absorbing.
"""
START, T1, T2, T3, E0, ED, F0, F4, REJECT = 0, 1, 2, 3, 4, 5, 6, 7, 8


def rfc3629_step(q, b):
    if q == 0:
        if b <= 0x7F:
            return 0
        if 0xC2 <= b and b <= 0xDF:
            return 1
        if b == 0xE0:
            return 4
        if (0xE1 <= b and b <= 0xEC) or b == 0xEE or b == 0xEF:
            return 2
        if b == 0xED:
            return 5
        if b == 0xF0:
            return 6
        if 0xF1 <= b and b <= 0xF3:
            return 3
        if b == 0xF4:
            return 7
        return 8
    if q == 1:
        if 0x80 <= b and b <= 0xBF:
            return 0
        return 8
    if q == 2:
        if 0x80 <= b and b <= 0xBF:
            return 1
        return 8
    if q == 3:
        if 0x80 <= b and b <= 0xBF:
            return 2
        return 8
    if q == 4:
        if 0xA0 <= b and b <= 0xBF:
            return 1
        return 8
    if q == 5:
        if 0x80 <= b and b <= 0x9F:
            return 1
        return 8
    if q == 6:
        if 0x90 <= b and b <= 0xBF:
            return 2
        return 8
    if q == 7:
        if 0x80 <= b and b <= 0x8F:
            return 2
        return 8
    return 8


def to_table(q):
    """bijection spec context -> state number used by the implementations' DFA table
    (0 accept, 1 reject, 2/3/7 = one/two/three continuation bytes, 4 E0, 5 ED, 6 F0, 8 F4)"""
    if q == 0:
        return 0
    if q == 1:
        return 2
    if q == 2:
        return 3
    if q == 3:
        return 7
    if q == 4:
        return 4
    if q == 5:
        return 5
    if q == 6:
        return 6
    if q == 7:
        return 8
    return 1


def from_table(s):
    if s == 0:
        return 0
    if s == 2:
        return 1
    if s == 3:
        return 2
    if s == 7:
        return 3
    if s == 4:
        return 4
    if s == 5:
        return 5
    if s == 6:
        return 6
    if s == 8:
        return 7
    return 8


def run_concrete(q, data):
    """reference run (CPython only; the symbolic counterpart is the axiomatised utf8_run)"""
    for b in data:
        q = rfc3629_step(q, b)
    return q
