"""Contract-level lemma programs for C03: parse(marshal(m)) for each message class (the object serializers between the
two are third-party codecs and are assumed to reproduce JSON-like structures)."""
from autobahn.wamp import message as M


def rt_published(m):
    return M.Published.parse(m.marshal())


def rt_subscribed(m):
    return M.Subscribed.parse(m.marshal())


def rt_registered(m):
    return M.Registered.parse(m.marshal())


def rt_unsubscribed(m):
    return M.Unsubscribed.parse(m.marshal())


def rt_unregistered(m):
    return M.Unregistered.parse(m.marshal())


def rt_event_received(m):
    return M.EventReceived.parse(m.marshal())


def rt_goodbye(m):
    return M.Goodbye.parse(m.marshal())


def rt_abort(m):
    return M.Abort.parse(m.marshal())


def rt_cancel(m):
    return M.Cancel.parse(m.marshal())


def rt_interrupt(m):
    return M.Interrupt.parse(m.marshal())


def rt_unsubscribe(m):
    return M.Unsubscribe.parse(m.marshal())


def rt_unregister(m):
    return M.Unregister.parse(m.marshal())


def rt_subscribe(m):
    return M.Subscribe.parse(m.marshal())


def rt_register(m):
    return M.Register.parse(m.marshal())


def rt_challenge(m):
    return M.Challenge.parse(m.marshal())


def rt_authenticate(m):
    return M.Authenticate.parse(m.marshal())


def rt_yield(m):
    return M.Yield.parse(m.marshal())


def rt_result(m):
    return M.Result.parse(m.marshal())


def rt_error(m):
    return M.Error.parse(m.marshal())


def rt_call(m):
    return M.Call.parse(m.marshal())


def rt_invocation(m):
    return M.Invocation.parse(m.marshal())


def rt_event(m):
    return M.Event.parse(m.marshal())


def rt_publish(m):
    return M.Publish.parse(m.marshal())
