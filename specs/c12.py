"""Spec functions for C12 (RFC 7692 section 7.1: permessage-deflate parameters)."""


def wbits_ok(n):
    return 9 <= n <= 15
