"""Spec functions for the WebSocket properties, written from RFC 6455 (never from the code)."""
import struct
from specs.utf8 import from_table, to_table

CLOSED, CONNECTING, CLOSING, OPEN, PROXY_CONNECTING = 0, 1, 2, 3, 4


def rank(state):
    """forward order of the connection life cycle"""
    if state == 1 or state == 4:
        return 0
    if state == 3:
        return 1
    if state == 2:
        return 2
    return 3


def be16(v):
    return struct.pack("!H", v)


def close_payload(code, reason):
    """RFC 6455 5.5.1: optional 2-octet status code followed by optional UTF-8 reason"""
    p = b""
    if code is not None:
        p = p + struct.pack("!H", code)
    if reason is not None:
        p = p + reason
    return p


def wire_close_code_ok(c):
    """status codes that may appear in a close frame on the wire (RFC 6455 7.4 + IANA registry)"""
    return (1000 <= c and c <= 1003) or (1007 <= c and c <= 1014) or (3000 <= c and c <= 4999)


def rfc_close_code_invalid(c):
    """codes a receiver MUST treat as a protocol error: <1000, 1004-1006, 1015, 1016-2999 (unassigned), >=5000.
    1012-1014 are later IANA additions: either verdict is accepted (not in this predicate, not in _valid)"""
    return c < 1000 or c == 1004 or c == 1005 or c == 1006 or (1015 <= c and c <= 2999) or c >= 5000


def rfc_close_code_valid(c):
    return (1000 <= c and c <= 1003) or (1007 <= c and c <= 1011) or (3000 <= c and c <= 4999)


def utf8_complete(b):
    """complete, well-formed UTF-8 (RFC 3629): the run from START over all of b ends in START"""
    return utf8_run(0, b, len(b)) == 0


def exists_code(payload):
    """a close payload of >= 2 octets carries a status code that may legally appear on the wire"""
    return wire_close_code_ok(payload[0] * 256 + payload[1])


# ---------------------------------------------------------------- RFC 6455 5.2 frame header (first two octets)
def h_fin(b0):
    return b0 // 128


def h_rsv(b0):
    return (b0 // 16) % 8


def h_op(b0):
    return b0 % 16


def h_masked(b1):
    return b1 // 128


def h_len7(b1):
    return b1 % 128


def rfc_header_ok(b0, b1, is_server, require_masked, accept_masked, pmce, inside_message):
    """verdict on the first two header octets (RFC 6455 5.2, 5.4, 5.5; RFC 7692 6: RSV1 only on the first frame
    of a data message and only with a negotiated compression extension)"""
    fin = b0 // 128
    rsv = (b0 // 16) % 8
    op = b0 % 16
    m = b1 // 128
    l7 = b1 % 128
    rsv_ok = rsv == 0 or (pmce and rsv == 4 and (op == 1 or op == 2) and not inside_message)
    mask_ok = (not (is_server and require_masked) or m == 1) and (not ((not is_server) and (not accept_masked)) or m == 0)
    if op > 7:
        kind_ok = fin == 1 and l7 <= 125 and (op == 8 or op == 9 or op == 10) and not (op == 8 and l7 == 1)
    else:
        kind_ok = (op == 0 or op == 1 or op == 2) and ((op == 0) == inside_message)
    return rsv_ok and mask_ok and kind_ok


def header_len(b1):
    """octets of the complete header: 2 + extended length (0/2/8) + masking key (0/4)"""
    l7 = b1 % 128
    ext = 0
    if l7 == 126:
        ext = 2
    if l7 == 127:
        ext = 8
    if b1 // 128 == 1:
        return 2 + ext + 4
    return 2 + ext


def be_value(data, lo, n):
    """big-endian unsigned integer of data[lo:lo+n] (n = 2 or 8)"""
    if n == 2:
        return data[lo] * 256 + data[lo + 1]
    return (((((((data[lo] * 256 + data[lo + 1]) * 256 + data[lo + 2]) * 256 + data[lo + 3]) * 256 + data[lo + 4]) * 256
              + data[lo + 5]) * 256 + data[lo + 6]) * 256 + data[lo + 7])


def payload_len(data):
    """declared payload length of a complete header"""
    l7 = data[1] % 128
    if l7 == 126:
        return be_value(data, 2, 2)
    if l7 == 127:
        return be_value(data, 2, 8)
    return l7


def rfc_extlen_ok(data):
    """minimal length encoding (5.2) and the most significant bit of a 64-bit length MUST be 0"""
    l7 = data[1] % 128
    if l7 == 126:
        return be_value(data, 2, 2) >= 126
    if l7 == 127:
        return 65536 <= be_value(data, 2, 8) and be_value(data, 2, 8) <= 0x7FFFFFFFFFFFFFFF
    return True


def size_bad(total, length, max_message, max_frame):
    """C16: the declared length of this data frame pushes the message / frame over a configured limit"""
    return (0 < max_message and max_message < total + length) or (0 < max_frame and max_frame < length)


# ---- C01: the sender's side of the wire format, written from RFC 6455 section 5.2 (independent of sendFrame)
def enc_header(fin, rsv, opcode, masked, n):
    """first octets of a frame up to (excluding) the masking key: FIN|RSV|opcode, MASK|len7, extended length"""
    b0 = (128 if fin else 0) + rsv * 16 + opcode
    m = 128 if masked else 0
    if n <= 125:
        return bytes([b0, m + n])
    if n <= 0xFFFF:
        return bytes([b0, m + 126]) + struct.pack("!H", n)
    return bytes([b0, m + 127]) + struct.pack("!Q", n)
