"""Spec functions for the WebSocket properties, written from RFC 6455 (never from the code)."""
import struct

CLOSED, CONNECTING, CLOSING, OPEN, PROXY_CONNECTING = 0, 1, 2, 3, 4


def rank(state):
    """forward order of the connection life cycle"""
    if state == 1 or state == 4:
        return 0
    if state == 3:
        return 1
    if state == 2:
        return 2
    return 3


def be16(v):
    return struct.pack("!H", v)


def close_payload(code, reason):
    """RFC 6455 5.5.1: optional 2-octet status code followed by optional UTF-8 reason"""
    p = b""
    if code is not None:
        p = p + struct.pack("!H", code)
    if reason is not None:
        p = p + reason
    return p


def wire_close_code_ok(c):
    """status codes that may appear in a close frame on the wire (RFC 6455 7.4 + IANA registry)"""
    return (1000 <= c and c <= 1003) or (1007 <= c and c <= 1014) or (3000 <= c and c <= 4999)


def rfc_close_code_invalid(c):
    """codes a receiver MUST treat as a protocol error: <1000, 1004-1006, 1015, 1016-2999 (unassigned), >=5000.
    1012-1014 are later IANA additions: either verdict is accepted (not in this predicate, not in _valid)"""
    return c < 1000 or c == 1004 or c == 1005 or c == 1006 or (1015 <= c and c <= 2999) or c >= 5000


def rfc_close_code_valid(c):
    return (1000 <= c and c <= 1003) or (1007 <= c and c <= 1011) or (3000 <= c and c <= 4999)
