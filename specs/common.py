"""Spec functions shared by all properties (pure Python, executed symbolically by pyvc and
concretely by CPython in replay)."""
